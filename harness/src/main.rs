//! vmon: runtime monitors for llfree-rs (see /verif/DESIGN.md).
//!
//! One process = one shard. It prints a JSON report (what it observed) to `--out` and exits 0;
//! verdicts (VIOLATION lines, known findings, exit codes) are made by the driver `/verif/check`.

mod bufs;
mod cfgs;
mod crash;
mod generator;
mod hist;
mod hooks;
mod json;
mod mem;
mod model;
mod ops;
mod oracle;
mod pool;
mod rng;
mod sched;
mod schedrun;
mod seq;
mod special;
mod sut;
mod unit;

use std::collections::{BTreeMap, BTreeSet};
use std::sync::OnceLock;

/// per shard cap on remembered distinct state hashes (the merged count is then conservative)
pub const STATES_CAP: usize = 200_000;
pub static REPLAY_DIR: OnceLock<String> = OnceLock::new();

use json::J;
use oracle::Viol;

pub fn geometry() -> String {
    format!(
        "{}frames_tree_huge_{}",
        if cfg!(feature = "16K") { "16K_" } else { "4K_" },
        llfree::TREE_HUGE
    )
}

#[derive(Clone, Debug)]
pub struct Args {
    pub cmd: String,
    pub prop: String,
    pub seed: u64,
    pub shard: usize,
    pub shards: usize,
    pub budget_ms: u64,
    pub out: Option<String>,
    pub replay_dir: String,
    pub exh: bool,
    pub depth: usize,
    pub tier_thorough: bool,
    pub max_evals: u64,
    pub file: Option<String>,
    pub extra: BTreeMap<String, String>,
}

fn parse_args() -> Args {
    let mut a = Args {
        cmd: String::new(),
        prop: "C02".into(),
        seed: 1,
        shard: 0,
        shards: 1,
        budget_ms: 5000,
        out: None,
        replay_dir: "/verif/replays".into(),
        exh: false,
        depth: 2,
        tier_thorough: false,
        max_evals: 0,
        file: None,
        extra: BTreeMap::new(),
    };
    let mut it = std::env::args().skip(1);
    a.cmd = it.next().unwrap_or_else(|| "help".into());
    while let Some(k) = it.next() {
        let mut val = || it.next().unwrap_or_else(|| panic!("missing value for {k}"));
        match k.as_str() {
            "--prop" => a.prop = val(),
            "--seed" => a.seed = val().parse().unwrap(),
            "--shard" => {
                let v = val();
                let (i, n) = v.split_once('/').unwrap();
                a.shard = i.parse().unwrap();
                a.shards = n.parse().unwrap();
            }
            "--budget-ms" => a.budget_ms = val().parse().unwrap(),
            "--out" => a.out = Some(val()),
            "--replay-dir" => a.replay_dir = val(),
            "--exh" => a.exh = true,
            "--depth" => a.depth = val().parse().unwrap(),
            "--thorough" => a.tier_thorough = true,
            "--max-evals" => a.max_evals = val().parse().unwrap(),
            "--file" => a.file = Some(val()),
            other if other.starts_with("--") => {
                let v = val();
                a.extra.insert(other[2..].to_string(), v);
            }
            other => panic!("unknown argument {other}"),
        }
    }
    a
}

/// What one shard observed.
pub struct Report {
    pub prop: String,
    pub engine: String,
    pub evaluations: u64,
    pub calls: u64,
    pub crash_points: u64,
    pub counters: BTreeMap<String, u64>,
    pub tuples: BTreeSet<String>,
    pub states: BTreeSet<u64>,
    pub samples: Vec<J>,
    pub violations: Vec<J>,
    pub others: BTreeMap<String, (u64, String)>,
    pub notes: Vec<String>,
    pub replay_dir: String,
    pub extra: BTreeMap<String, J>,
}

impl Report {
    pub fn new(prop: &str, engine: &str) -> Report {
        Report {
            prop: prop.to_string(),
            engine: engine.to_string(),
            evaluations: 0,
            calls: 0,
            crash_points: 0,
            counters: BTreeMap::new(),
            tuples: BTreeSet::new(),
            states: BTreeSet::new(),
            samples: Vec::new(),
            violations: Vec::new(),
            others: BTreeMap::new(),
            notes: Vec::new(),
            replay_dir: REPLAY_DIR.get().cloned().unwrap_or_else(|| "/verif/replays".into()),
            extra: BTreeMap::new(),
        }
    }
    pub fn add(&mut self, k: &str, v: u64) {
        if v > 0 || !self.counters.contains_key(k) {
            *self.counters.entry(k.to_string()).or_insert(0) += v;
        }
    }
    pub fn set(&mut self, k: &str, v: u64) {
        self.counters.insert(k.to_string(), v);
    }
    /// Record a violation of the checked property; the first few get a replay file.
    pub fn violation(&mut self, prop: &str, msg: &str, replay: impl FnOnce() -> J) {
        let n = self.violations.len();
        if n >= 40 {
            self.add("violations_not_listed", 1);
            return;
        }
        let mut path = String::new();
        if n < 8 {
            let j = replay();
            let body = j.dump();
            let h = body.bytes().fold(0xcbf29ce484222325u64, |h, b| (h ^ b as u64).wrapping_mul(0x100000001b3));
            path = format!("{}/{}-{}-{:012x}.json", self.replay_dir, prop, geometry(), h & 0xffff_ffff_ffff);
            let _ = std::fs::create_dir_all(&self.replay_dir);
            if let Err(e) = std::fs::write(&path, body) {
                self.notes.push(format!("cannot write replay {path}: {e}"));
            }
        }
        self.violations.push(J::obj().with("property", prop).with("message", msg).with("replay", path));
    }
    pub fn other(&mut self, v: &Viol) {
        let key = v.props.join("+");
        let e = self.others.entry(key).or_insert((0, v.msg.clone()));
        e.0 += 1;
    }
    pub fn start_failure(&mut self, prop: &str, sc: &seq::Scenario, v: &Viol) {
        if v.props.contains(&prop) {
            let msg = v.msg.clone();
            self.violation(prop, &msg, || seq::replay_json(prop, sc, &hist::Opts::default(), &[], v));
        } else {
            self.other(v);
        }
        self.add("constructions_failed", 1);
    }
    pub fn to_json(&self) -> J {
        let mut counters = J::obj();
        for (k, v) in &self.counters {
            counters.set(k, *v);
        }
        let mut others = J::obj();
        for (k, (n, m)) in &self.others {
            others.set(k, J::obj().with("count", *n).with("first", m.clone()));
        }
        let mut j = J::obj()
            .with("property", self.prop.clone())
            .with("engine", self.engine.clone())
            .with("geometry", geometry())
            .with("debug_assertions", cfg!(debug_assertions))
            .with("evaluations", self.evaluations)
            .with("calls", self.calls)
            .with("crash_points", self.crash_points)
            .with("counters", counters)
            .with("tuples", J::Arr(self.tuples.iter().map(|t| J::from(t.as_str())).collect()))
            .with("states_count", self.states.len())
            .with("samples", J::Arr(self.samples.clone()))
            .with("violations", J::Arr(self.violations.clone()))
            .with("other_properties", others)
            .with("notes", J::Arr(self.notes.iter().map(|n| J::from(n.as_str())).collect()));
        for (k, v) in &self.extra {
            j.set(k, v.clone());
        }
        j
    }
}

fn main() {
    let args = parse_args();
    bufs::install_panic_capture();
    bufs::install_fault_handler();
    hooks::install();
    let _ = REPLAY_DIR.set(args.replay_dir.clone());
    let rep = bufs::catch(|| run_engine(&args));
    let rep = match rep {
        Ok(r) => r,
        Err(p) => {
            // a panic that escaped every per-call catch: inside the allocator's sources it is still an
            // observation (a query or constructor of the interface panicked), anywhere else a harness error
            if !bufs::panic_in_sut(&p) {
                eprintln!("harness panic: {p}");
                std::process::exit(101);
            }
            let mut r = Report::new(&args.prop, &args.cmd);
            let msg = format!("a call outside the per-call monitors (query / constructor during {}) panicked: {p}", args.cmd);
            let v = oracle::viol(&["C09"], msg.clone());
            if args.prop == "C09" {
                r.violation("C09", &msg, || J::obj().with("engine", args.cmd.as_str()).with("property", "C09").with("message", msg.clone()));
            } else {
                r.other(&v);
                r.notes.push("shard ended early: the allocator panicked in a query; no further observations".into());
            }
            r.evaluations = 1;
            r
        }
    };
    let out = rep.to_json().dump();
    write_report(&args, &rep, out);
}

fn run_engine(args: &Args) -> Report {
    match args.cmd.as_str() {
        "seq" => seq::run(args),
        "sched" => schedrun::run(args),
        "free" => mem::run_free(args),
        "mem" => mem::run_mem(args),
        "sizes" => mem::run_sizes(args),
        "init" => special::run_init(args),
        "single" => special::run_single(args),
        "handoff" => special::run_handoff(args),
        "invalid" => special::run_invalid(args),
        "wrappers" => special::run_wrappers(args),
        "row" => unit::run_row(args),
        "sort" => unit::run_sort(args),
        "lower" => unit::run_lower(args),
        "replay" => {
            let text = std::fs::read_to_string(args.file.as_ref().expect("--file")).expect("read replay");
            let j = J::parse(&text).expect("parse replay");
            match j.get("engine").and_then(|e| e.as_str()) {
                Some("seq") => seq::replay(&j),
                Some("sched") => schedrun::replay(&j),
                e => panic!("unknown engine {e:?}"),
            }
        }
        _ => {
            eprintln!("usage: vmon <seq|replay> --prop Cxx --seed N --shard i/n --budget-ms T --out FILE");
            std::process::exit(2);
        }
    }
}

fn write_report(args: &Args, rep: &Report, out: String) {
    match &args.out {
        Some(p) => {
            // distinct state hashes as a binary side file (8 bytes each) for the cross-shard union
            let mut bytes = Vec::with_capacity(rep.states.len() * 8);
            for s in &rep.states {
                bytes.extend_from_slice(&s.to_le_bytes());
            }
            std::fs::write(format!("{p}.states"), bytes).expect("write states");
            std::fs::write(p, out).expect("write report")
        }
        None => println!("{out}"),
    }
}
