//! Metadata buffers with the exact requested size, placed flush against an inaccessible page
//! (native builds), or as exact-size heap allocations (ASan red zones / Miri bounds).
//!
//! Any access of the allocator outside the caller-provided buffers faults (SIGSEGV -> handler ->
//! `_exit(77)` after printing the scenario id), or is reported by ASan / Miri.

use std::sync::atomic::{AtomicU64, AtomicUsize, Ordering};

#[derive(Clone, Copy, PartialEq, Eq, Debug)]
pub enum Place {
    /// buffer end is flush with the trailing guard page (catches overruns byte-exactly)
    End,
    /// buffer start is flush with the leading guard page (catches underruns)
    Start,
    /// plain heap allocation with exactly the requested size (ASan / Miri / valgrind)
    Heap,
}

pub fn default_place(seed: u64) -> Place {
    if cfg!(miri) || std::env::var("VMON_BUFS").as_deref() == Ok("heap") {
        Place::Heap
    } else if seed % 4 == 3 {
        Place::Start
    } else {
        Place::End
    }
}

const PAGE: usize = 4096;

pub struct Buf {
    base: *mut u8,
    map_len: usize,
    ptr: *mut u8,
    len: usize,
    place: Place,
}
unsafe impl Send for Buf {}
unsafe impl Sync for Buf {}

impl Buf {
    /// Allocate `len` bytes (64-byte aligned) filled with `fill`.
    pub fn new(len: usize, place: Place, fill: u8) -> Buf {
        match place {
            Place::Heap => {
                if len == 0 {
                    // a well-aligned dangling pointer, never dereferenced
                    return Buf { base: std::ptr::null_mut(), map_len: 0, ptr: std::ptr::without_provenance_mut(64), len: 0, place };
                }
                let layout = std::alloc::Layout::from_size_align(len, 64).unwrap();
                let p = unsafe { std::alloc::alloc(layout) };
                assert!(!p.is_null());
                unsafe { std::ptr::write_bytes(p, fill, len) };
                Buf { base: p, map_len: len, ptr: p, len, place }
            }
            #[cfg(not(miri))]
            Place::End | Place::Start => unsafe {
                let data = len.div_ceil(PAGE).max(1) * PAGE;
                let map_len = data + 2 * PAGE;
                let base = libc::mmap(
                    std::ptr::null_mut(),
                    map_len,
                    libc::PROT_NONE,
                    libc::MAP_PRIVATE | libc::MAP_ANONYMOUS,
                    -1,
                    0,
                );
                assert!(base != libc::MAP_FAILED, "mmap failed");
                let base = base as *mut u8;
                let r = libc::mprotect(base.add(PAGE) as *mut _, data, libc::PROT_READ | libc::PROT_WRITE);
                assert!(r == 0);
                let ptr = if len == 0 {
                    // pointer *to* the guard page: any access faults
                    base.add(PAGE + data)
                } else if place == Place::End {
                    // flush with the trailing guard page, keeping 64-byte alignment
                    let p = base.add(PAGE + data - len);
                    p.sub(p as usize % 64)
                } else {
                    base.add(PAGE)
                };
                if len > 0 {
                    std::ptr::write_bytes(ptr, fill, len);
                }
                register_region(base as usize, map_len);
                Buf { base, map_len, ptr, len, place }
            },
            #[cfg(miri)]
            _ => Buf::new(len, Place::Heap, fill),
        }
    }

    pub fn len(&self) -> usize {
        self.len
    }
    pub fn addr(&self) -> usize {
        self.ptr as usize
    }
    pub fn ptr(&self) -> *mut u8 {
        self.ptr
    }
    /// The buffer as the `'static` slice the allocator API wants.
    ///
    /// # Safety
    /// The caller must not use the slice after the `Buf` is dropped, and must not create
    /// overlapping slices that are used at the same time.
    pub unsafe fn slice(&self) -> &'static mut [u8] {
        unsafe { std::slice::from_raw_parts_mut(self.ptr, self.len) }
    }
    pub fn fill(&self, v: u8) {
        if self.len > 0 {
            unsafe { std::ptr::write_bytes(self.ptr, v, self.len) };
        }
    }
    pub fn copy_from(&self, other: &[u8]) {
        assert!(other.len() == self.len);
        if self.len > 0 {
            unsafe { std::ptr::copy_nonoverlapping(other.as_ptr(), self.ptr, self.len) };
        }
    }
    pub fn to_vec(&self) -> Vec<u8> {
        let mut v = vec![0u8; self.len];
        if self.len > 0 {
            unsafe { std::ptr::copy_nonoverlapping(self.ptr, v.as_mut_ptr(), self.len) };
        }
        v
    }
}

impl Drop for Buf {
    fn drop(&mut self) {
        match self.place {
            Place::Heap => {
                if self.map_len > 0 {
                    let layout = std::alloc::Layout::from_size_align(self.map_len, 64).unwrap();
                    unsafe { std::alloc::dealloc(self.base, layout) };
                }
            }
            #[cfg(not(miri))]
            _ => unsafe {
                unregister_region(self.base as usize);
                libc::munmap(self.base as *mut _, self.map_len);
            },
            #[cfg(miri)]
            _ => {}
        }
    }
}

// ---------------------------------------------------------------------------------------------
// Fault handler: identify guard-page hits and report the running scenario.

const MAX_REGIONS: usize = 64;
static REGION_BASE: [AtomicUsize; MAX_REGIONS] = [const { AtomicUsize::new(0) }; MAX_REGIONS];
static REGION_LEN: [AtomicUsize; MAX_REGIONS] = [const { AtomicUsize::new(0) }; MAX_REGIONS];
/// (engine tag, scenario seed, step) of the scenario currently executing in this process
pub static SCENARIO: [AtomicU64; 3] = [const { AtomicU64::new(0) }; 3];

pub fn set_scenario(tag: u64, seed: u64, step: u64) {
    SCENARIO[0].store(tag, Ordering::Relaxed);
    SCENARIO[1].store(seed, Ordering::Relaxed);
    SCENARIO[2].store(step, Ordering::Relaxed);
}

#[allow(dead_code)]
fn register_region(base: usize, len: usize) {
    for i in 0..MAX_REGIONS {
        if REGION_BASE[i]
            .compare_exchange(0, base, Ordering::AcqRel, Ordering::Acquire)
            .is_ok()
        {
            REGION_LEN[i].store(len, Ordering::Release);
            return;
        }
    }
}
#[allow(dead_code)]
fn unregister_region(base: usize) {
    for i in 0..MAX_REGIONS {
        if REGION_BASE[i].load(Ordering::Acquire) == base {
            REGION_LEN[i].store(0, Ordering::Release);
            REGION_BASE[i].store(0, Ordering::Release);
            return;
        }
    }
}

#[cfg(not(miri))]
fn write_hex(fd: i32, label: &[u8], v: u64) {
    let mut buf = [0u8; 40];
    let mut n = 0;
    for &b in label {
        buf[n] = b;
        n += 1;
    }
    for i in (0..16).rev() {
        let d = ((v >> (i * 4)) & 0xf) as u8;
        buf[n] = if d < 10 { b'0' + d } else { b'a' + d - 10 };
        n += 1;
    }
    buf[n] = b' ';
    n += 1;
    unsafe { libc::write(fd, buf.as_ptr() as *const _, n) };
}

#[cfg(not(miri))]
extern "C" fn on_fault(sig: i32, info: *mut libc::siginfo_t, _ctx: *mut libc::c_void) {
    let addr = unsafe { (*info).si_addr() } as usize;
    let mut guard = false;
    for i in 0..MAX_REGIONS {
        let b = REGION_BASE[i].load(Ordering::Acquire);
        let l = REGION_LEN[i].load(Ordering::Acquire);
        if b != 0 && addr >= b && addr < b + l {
            guard = true;
        }
    }
    let msg: &[u8] = if guard { b"\nVMON-GUARD-FAULT " } else { b"\nVMON-SIGNAL " };
    unsafe { libc::write(2, msg.as_ptr() as *const _, msg.len()) };
    write_hex(2, b"sig=", sig as u64);
    write_hex(2, b"addr=", addr as u64);
    write_hex(2, b"tag=", SCENARIO[0].load(Ordering::Relaxed));
    write_hex(2, b"seed=", SCENARIO[1].load(Ordering::Relaxed));
    write_hex(2, b"step=", SCENARIO[2].load(Ordering::Relaxed));
    unsafe { libc::write(2, b"\n".as_ptr() as *const _, 1) };
    unsafe { libc::_exit(if guard { 77 } else { 78 }) };
}

/// Install the fault handler (native builds only; ASan/TSan builds keep the sanitizer's own handler).
pub fn install_fault_handler() {
    #[cfg(not(miri))]
    unsafe {
        if std::env::var("VMON_NO_SIGHANDLER").is_ok() {
            return;
        }
        // alternate stack so that the handler also works on stack overflow
        let ss_size = 64 * 1024;
        let ss = libc::stack_t {
            ss_sp: libc::mmap(
                std::ptr::null_mut(),
                ss_size,
                libc::PROT_READ | libc::PROT_WRITE,
                libc::MAP_PRIVATE | libc::MAP_ANONYMOUS,
                -1,
                0,
            ),
            ss_flags: 0,
            ss_size,
        };
        libc::sigaltstack(&ss, std::ptr::null_mut());
        let mut sa: libc::sigaction = std::mem::zeroed();
        sa.sa_sigaction = on_fault as usize;
        sa.sa_flags = libc::SA_SIGINFO | libc::SA_ONSTACK;
        libc::sigemptyset(&mut sa.sa_mask);
        for sig in [libc::SIGSEGV, libc::SIGBUS, libc::SIGILL, libc::SIGABRT, libc::SIGFPE] {
            libc::sigaction(sig, &sa, std::ptr::null_mut());
        }
    }
}

// ---------------------------------------------------------------------------------------------
// Panic capture

use std::cell::RefCell;
thread_local! {
    static LAST_PANIC: RefCell<Option<String>> = const { RefCell::new(None) };
}

pub fn install_panic_capture() {
    std::panic::set_hook(Box::new(|info| {
        let msg = if let Some(s) = info.payload().downcast_ref::<&str>() {
            s.to_string()
        } else if let Some(s) = info.payload().downcast_ref::<String>() {
            s.clone()
        } else {
            "<non-string panic>".to_string()
        };
        let loc = info
            .location()
            .map(|l| format!("{}:{}", l.file(), l.line()))
            .unwrap_or_default();
        LAST_PANIC.with(|p| *p.borrow_mut() = Some(format!("{msg} @ {loc}")));
    }));
}

pub fn take_panic() -> String {
    LAST_PANIC
        .with(|p| p.borrow_mut().take())
        .unwrap_or_else(|| "<unknown panic>".to_string())
}

/// Did this captured panic (`message @ file:line`) originate in the sources of the system under test
/// (llfree / llfree-eval), as opposed to the harness or the standard library called by the harness?
pub fn panic_in_sut(p: &str) -> bool {
    let loc = p.rsplit(" @ ").next().unwrap_or("");
    (loc.contains("/core/src/") || loc.contains("/eval/src/")) && !loc.contains("/verif/harness")
}

/// Run `f`, converting a panic into `Err(message @ file:line)`.
pub fn catch<R>(f: impl FnOnce() -> R) -> Result<R, String> {
    match std::panic::catch_unwind(std::panic::AssertUnwindSafe(f)) {
        Ok(r) => Ok(r),
        Err(_) => Err(take_panic()),
    }
}
