//! A small persistent worker pool (avoids creating OS threads for every scheduled run).
//! `start` hands non-'static jobs to the workers; the returned guard blocks until all of them are
//! finished (also on drop), which is what makes the lifetime erasure sound (same contract as
//! `std::thread::scope`).

use std::sync::mpsc::{Receiver, Sender, channel};
use std::sync::{Mutex, OnceLock};
use std::thread::Thread;

type Job = Box<dyn FnOnce() + Send + 'static>;

pub struct Pool {
    txs: Vec<Sender<Job>>,
    done: Receiver<usize>,
    pub threads: Vec<Thread>,
}

pub struct Running<'p> {
    pool: &'p Pool,
    pending: usize,
}

impl Pool {
    pub fn new(n: usize) -> Pool {
        let (done_tx, done) = channel::<usize>();
        let (h_tx, h_rx) = channel::<(usize, Thread)>();
        let mut txs = Vec::new();
        for i in 0..n {
            let (tx, rx) = channel::<Job>();
            txs.push(tx);
            let done_tx = done_tx.clone();
            let h_tx = h_tx.clone();
            std::thread::Builder::new()
                .name(format!("worker-{i}"))
                .spawn(move || {
                    let _ = h_tx.send((i, std::thread::current()));
                    while let Ok(job) = rx.recv() {
                        let _ = std::panic::catch_unwind(std::panic::AssertUnwindSafe(job));
                        let _ = done_tx.send(i);
                    }
                })
                .expect("spawn worker");
        }
        let mut threads: Vec<Option<Thread>> = vec![None; n];
        for _ in 0..n {
            let (i, t) = h_rx.recv().expect("worker handle");
            threads[i] = Some(t);
        }
        Pool { txs, done, threads: threads.into_iter().map(|t| t.unwrap()).collect() }
    }

    /// Job `i` runs on worker `i`.
    pub fn start<'a>(&self, jobs: Vec<Box<dyn FnOnce() + Send + 'a>>) -> Running<'_> {
        assert!(jobs.len() <= self.txs.len());
        let pending = jobs.len();
        for (i, job) in jobs.into_iter().enumerate() {
            // lifetime erasure: `Running` waits for completion before the borrowed data can go away
            let job: Job = unsafe { std::mem::transmute::<Box<dyn FnOnce() + Send + 'a>, Job>(job) };
            self.txs[i].send(job).expect("worker alive");
        }
        Running { pool: self, pending }
    }
}

impl Running<'_> {
    pub fn wait(mut self) {
        self.wait_inner();
    }
    fn wait_inner(&mut self) {
        while self.pending > 0 {
            let _ = self.pool.done.recv();
            self.pending -= 1;
        }
    }
}
impl Drop for Running<'_> {
    fn drop(&mut self) {
        self.wait_inner();
    }
}

static POOL: OnceLock<Mutex<Pool>> = OnceLock::new();

/// The process-wide pool of 3 workers (one scheduled run at a time).
pub fn global() -> std::sync::MutexGuard<'static, Pool> {
    POOL.get_or_init(|| Mutex::new(Pool::new(3))).lock().unwrap_or_else(|e| e.into_inner())
}
