//! Dispatch of the llfree `verif` hook to a per-thread sink.

use std::cell::Cell;
use std::panic::Location;

pub use llfree::verif::{CAS, LOAD, RMW, STORE, SWAP};

pub trait Sink {
    fn on_access(&mut self, kind: u8, addr: usize, size: usize, loc: &'static Location<'static>);
}

thread_local! {
    static SINK: Cell<Option<*mut dyn Sink>> = const { Cell::new(None) };
    static IN_HOOK: Cell<bool> = const { Cell::new(false) };
}

fn global_hook(kind: u8, addr: usize, size: usize, loc: &'static Location<'static>) {
    let Some(sink) = SINK.with(|s| s.get()) else {
        return;
    };
    if IN_HOOK.with(|h| h.replace(true)) {
        return;
    }
    struct Reset;
    impl Drop for Reset {
        fn drop(&mut self) {
            IN_HOOK.with(|h| h.set(false));
        }
    }
    let _r = Reset;
    unsafe { (*sink).on_access(kind, addr, size, loc) };
}

pub fn install() {
    llfree::verif::set_hook(Some(global_hook));
}

/// Run `f` with `sink` receiving every atomic access of this thread.
pub fn with_sink<R>(sink: &mut dyn Sink, f: impl FnOnce() -> R) -> R {
    struct Restore(Option<*mut dyn Sink>);
    impl Drop for Restore {
        fn drop(&mut self) {
            SINK.with(|s| s.set(self.0));
        }
    }
    // erase the lifetime: the sink is only used while `f` runs
    let p: *mut dyn Sink = unsafe { std::mem::transmute::<&mut dyn Sink, *mut dyn Sink>(sink) };
    let old = SINK.with(|s| s.replace(Some(p)));
    let _r = Restore(old);
    f()
}

/// Run `f` with the hook bypassed on this thread (monitor code calling into the allocator).
pub fn bypass<R>(f: impl FnOnce() -> R) -> R {
    struct Restore(Option<*mut dyn Sink>);
    impl Drop for Restore {
        fn drop(&mut self) {
            SINK.with(|s| s.set(self.0));
        }
    }
    let old = SINK.with(|s| s.replace(None));
    let _r = Restore(old);
    f()
}

pub fn kind_name(k: u8) -> &'static str {
    match k {
        LOAD => "load",
        STORE => "store",
        SWAP => "swap",
        CAS => "cas",
        RMW => "rmw",
        _ => "?",
    }
}

/// Counts accesses (step counter) and optionally collects snapshots of a byte range before
/// every write into it (crash points).
pub struct CountSink {
    pub steps: u64,
    pub writes: u64,
}
impl Sink for CountSink {
    fn on_access(&mut self, kind: u8, _addr: usize, _size: usize, _loc: &'static Location<'static>) {
        self.steps += 1;
        if kind != LOAD {
            self.writes += 1;
        }
    }
}
