//! E3: crash snapshots of the persistent (lower) buffer and the recovery oracle (C05).

use std::panic::Location;

use llfree::{Alloc, FrameId, Init};

use crate::bufs::catch;
use crate::hooks::{LOAD, Sink};
use crate::model::{Block, Model};
use crate::sut::{NewErr, Sut};

/// Collects a copy of the lower buffer *before* every atomic write into it.
pub struct SnapSink {
    pub lo: usize,
    pub len: usize,
    pub snaps: Vec<Vec<u8>>,
    pub steps: u64,
    /// keep at most this many snapshots per call (very long calls)
    pub cap: usize,
}
impl SnapSink {
    pub fn new(lo: usize, len: usize) -> Self {
        SnapSink { lo, len, snaps: Vec::new(), steps: 0, cap: 4096 }
    }
    pub fn snap_now(&self) -> Vec<u8> {
        let mut v = vec![0u8; self.len];
        if self.len > 0 {
            unsafe { std::ptr::copy_nonoverlapping(self.lo as *const u8, v.as_mut_ptr(), self.len) };
        }
        v
    }
}
impl Sink for SnapSink {
    fn on_access(&mut self, kind: u8, addr: usize, _size: usize, _loc: &'static Location<'static>) {
        self.steps += 1;
        if kind != LOAD && addr >= self.lo && addr < self.lo + self.len && self.snaps.len() < self.cap {
            let s = self.snap_now();
            self.snaps.push(s);
        }
    }
}

/// What the calls in flight at the crash point may have touched.
#[derive(Clone, Debug, Default)]
pub struct Tol {
    /// blocks passed to started, not completed frees (their frames may be free or allocated)
    pub puts: Vec<Block>,
    /// blocks named by in-flight targeted allocations (free frames inside may show as allocated)
    pub get_ats: Vec<Block>,
    /// orders of in-flight untargeted allocations (each may have touched one aligned block)
    pub gets: Vec<usize>,
}

fn cover(diff: &mut Vec<usize>, gets: &[usize]) -> bool {
    // exact search: the lowest uncovered frame must be covered by one of the remaining gets
    if diff.is_empty() {
        return true;
    }
    let f = diff[0];
    for (i, &o) in gets.iter().enumerate() {
        let lo = f & !((1usize << o) - 1);
        let hi = lo + (1 << o);
        let mut rest: Vec<usize> = diff.iter().copied().filter(|&x| x < lo || x >= hi).collect();
        let mut g: Vec<usize> = gets.to_vec();
        g.remove(i);
        if cover(&mut rest, &g) {
            return true;
        }
    }
    false
}

/// Recover a fresh allocator from `snap` alone and judge it.
/// `model`: effects of completed calls only; `held`: blocks returned by completed allocations
/// (pieces, after completed partial frees) that no started free touches.
pub fn check_recovery(scratch: &mut Sut, snap: &[u8], model: &Model, held: &[Block], tol: &Tol) -> Vec<String> {
    let mut out = Vec::new();
    scratch.alloc = None;
    scratch.lower.copy_from(snap);
    match scratch.reinit(Init::Recover) {
        Ok(()) => {}
        Err(NewErr::Panic(p)) => {
            out.push(format!("recovery panicked: {p}"));
            return out;
        }
        Err(NewErr::Err(e)) => {
            out.push(format!("recovery failed: {e:?}"));
            return out;
        }
    }
    let a = scratch.a();
    let frames = model.frames;
    let mut leaked = Vec::new();
    let mut lost = 0usize;
    for f in 0..frames {
        let free = a.stats_at(FrameId(f), 0).free_frames == 1;
        if free && model.alloc[f] {
            // a frame of a completed allocation is reported free
            if !tol.puts.iter().any(|b| b.contains(f)) {
                if lost < 3 {
                    out.push(format!("frame {f} of a completed allocation is free after recovery"));
                }
                lost += 1;
            }
        } else if !free && !model.alloc[f] {
            if !tol.get_ats.iter().any(|b| b.contains(f)) && !tol.puts.iter().any(|b| b.contains(f)) {
                leaked.push(f);
            }
        }
    }
    if !leaked.is_empty() {
        let first = leaked[0];
        let n = leaked.len();
        let all = leaked.clone();
        if !cover(&mut leaked, &tol.gets) {
            // signature of one specific, listed finding: whole bitfield rows of the huge frame that an
            // in-flight partial free is (re)filling for a split
            // (a frame of such a row may at the same time be named by an in-flight targeted allocation or free,
            // which takes it out of `all`: judge row-wise, a row counts as whole if every frame of it is either
            // unexpectedly allocated or named by an in-flight call)
            let named = |f: usize| tol.get_ats.iter().any(|b| b.contains(f)) || tol.puts.iter().any(|b| b.contains(f));
            let mut rows: Vec<usize> = all.iter().map(|f| f / 64).collect();
            rows.dedup();
            let rows_of_split = rows.iter().all(|r| (r * 64..r * 64 + 64).all(|f| all.binary_search(&f).is_ok() || named(f)))
                && all.iter().all(|f| tol.puts.iter().any(|p| p.order < llfree::HUGE_ORDER && p.frame / llfree::HUGE_FRAMES == f / llfree::HUGE_FRAMES));
            out.push(format!(
                "{}{n} free frame(s) untouched by any in-flight call are allocated after recovery (first: {first}; in-flight get orders {:?})",
                if rows_of_split { "[whole rows in the huge frame of an in-flight partial free] " } else { "" },
                tol.gets
            ));
        }
    }
    // fast and exact counts agree, own validation passes
    let ts = a.tree_stats().free_frames;
    let st = a.stats().free_frames;
    if ts != st {
        out.push(format!("after recovery fast free count {ts} != exact {st}"));
    }
    if let Err(p) = catch(|| a.validate()) {
        out.push(format!("validate() after recovery: {p}"));
    }
    // every completed, untouched block can be freed with its order
    let cls = scratch.cfg.classes[0].0;
    for b in held {
        if tol.puts.iter().any(|p| p.overlaps(b)) {
            continue;
        }
        let req = scratch.cfg.request(b.order, cls, None);
        match catch(|| a.put(FrameId(b.frame), req)) {
            Ok(Ok(())) => {}
            Ok(Err(e)) => {
                out.push(format!("after recovery put(frame {}, order {}) of a completed allocation fails: {e:?}", b.frame, b.order));
                break;
            }
            Err(p) => {
                out.push(format!("after recovery put(frame {}, order {}) panicked: {p}", b.frame, b.order));
                break;
            }
        }
    }
    out
}
