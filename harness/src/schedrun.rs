//! `vmon sched`: scenario families and strategy enumeration for the token scheduler (C01, C03, C04,
//! C05, C13, C21).

use std::collections::BTreeSet;
use std::time::{Duration, Instant};

use llfree::{HUGE_FRAMES, HUGE_ORDER, Init, TREE_FRAMES, TREE_HUGE, TREE_ORDER};

use crate::bufs::default_place;
use crate::cfgs::Cfg;
use crate::hist::{Hist, Opts};
use crate::json::J;
use crate::model::Block;
use crate::ops::Op;
use crate::rng::Rng;
use crate::sched::{RunCache, RunCfg, RunOut, Scen, Strategy, TOp, run_once};
use crate::{Args, Report};

pub const FAMILIES: &[&str] = &[
    "rows-race", "narrow-wide", "multi-huge", "target-same", "alloc-free", "split-race", "shared-slot", "drain-race", "mixed",
];

fn slot_choice(rng: &mut Rng, cfg: &Cfg, class: u8, t: usize, mode: usize) -> Option<usize> {
    let n = cfg.slot_count(class).unwrap_or(0);
    if n == 0 {
        return None;
    }
    match mode {
        0 => Some(0),           // shared slot
        1 => Some(t % n),       // distinct slots (if enough)
        2 => None,              // no slot
        _ => if rng.chance(1, 4) { None } else { Some(rng.below(n)) },
    }
}

/// Build a scenario of `family` from `seed` (deterministic). Returns None if the prefix went wrong.
pub fn gen_scenario(family: &'static str, seed: u64) -> Option<Scen> {
    let mut rng = Rng::new(seed ^ 0x5ced);
    let nthreads = if rng.chance(1, 3) { 3 } else { 2 };
    let slots = rng.range(1, 3);
    let cfg = match family {
        "shared-slot" | "mixed" | "drain-race" => Cfg::by_name(*rng.pick(&["simple", "movable", "zeroed", "mixedslot2"]), slots),
        "multi-huge" => Cfg::by_name(*rng.pick(&["simple", "movable"]), slots),
        _ => Cfg::by_name(*rng.pick(&["simple", "simple", "movable", "zeroslot"]), slots),
    };
    let small_class = cfg.classes[0].0;
    let huge_class = cfg.classes[cfg.classes.len() - 1].0;
    let trees = match family {
        "rows-race" | "narrow-wide" | "split-race" => rng.range(1, 3),
        "target-same" | "alloc-free" => rng.range(1, 4),
        _ => rng.range(2, 5),
    };
    let mut frames = trees * TREE_FRAMES;
    if rng.chance(1, 5) && family != "multi-huge" {
        frames -= *rng.pick(&[1usize, 64, HUGE_FRAMES / 2, HUGE_FRAMES]).min(&(frames - 1));
    }
    // ---- prefix: start from AllocAll and free a little (nearly full memory => threads collide),
    //      or from FreeAll for the families that need free trees
    let init = match family {
        "multi-huge" | "alloc-free" => if rng.chance(2, 3) { Init::FreeAll } else { Init::AllocAll },
        "mixed" | "drain-race" | "target-same" => if rng.chance(1, 2) { Init::FreeAll } else { Init::AllocAll },
        _ => Init::AllocAll,
    };
    let mut h = Hist::start(frames, init, &cfg, default_place(seed), seed, Opts { compare_every: 1000, ..Opts::default() }).ok()?;
    let whole: Vec<usize> = (0..frames / HUGE_FRAMES).collect();
    let pick_huge = |rng: &mut Rng| -> usize { whole[rng.below(whole.len().max(1)) % whole.len().max(1)] };
    let mut split_parts: Vec<Block> = Vec::new();
    if init == Init::AllocAll && !whole.is_empty() {
        match family {
            "rows-race" => {
                // one bitfield entirely free, or only a few aligned row groups of it
                let hf = pick_huge(&mut rng) * HUGE_FRAMES;
                if rng.chance(1, 2) {
                    h.exec(Op::Put { frame: hf, order: HUGE_ORDER, class: small_class, slot: None });
                } else {
                    for _ in 0..rng.range(1, 4) {
                        let o = *rng.pick(&[7usize, 8, 8]);
                        let pos = rng.below(HUGE_FRAMES >> o);
                        h.exec(Op::Put { frame: hf + (pos << o), order: o, class: small_class, slot: None });
                    }
                }
            }
            "narrow-wide" => {
                let hf = pick_huge(&mut rng) * HUGE_FRAMES;
                for _ in 0..rng.range(1, 3) {
                    let row = rng.below(HUGE_FRAMES / 64);
                    h.exec(Op::Put { frame: hf + row * 64, order: 6, class: small_class, slot: None });
                }
            }
            "split-race" => {
                // nothing freed: the threads get different parts of one whole huge frame
                let hf = pick_huge(&mut rng) * HUGE_FRAMES;
                let o = *rng.pick(&[0usize, 0, 3, 6, 7, HUGE_ORDER - 1]);
                let parts = HUGE_FRAMES >> o;
                let mut ps: Vec<usize> = (0..parts).collect();
                rng.shuffle(&mut ps);
                for p in ps.into_iter().take(nthreads.min(parts)) {
                    split_parts.push(Block { frame: hf + (p << o), order: o });
                }
            }
            _ => {
                // free a handful of blocks of mixed orders
                for _ in 0..rng.range(1, 6) {
                    let hf = pick_huge(&mut rng) * HUGE_FRAMES;
                    let o = *rng.pick(&[0usize, 0, 3, 6, 7, 8, HUGE_ORDER, HUGE_ORDER]);
                    let pos = rng.below(HUGE_FRAMES >> o);
                    h.exec(Op::Put { frame: hf + (pos << o), order: o, class: small_class, slot: None });
                }
                if rng.chance(1, 2) && frames >= 2 * TREE_FRAMES {
                    // a whole tree free
                    let t = rng.below(frames / TREE_FRAMES);
                    for i in 0..TREE_HUGE {
                        h.exec(Op::Put { frame: t * TREE_FRAMES + i * HUGE_FRAMES, order: HUGE_ORDER, class: huge_class, slot: None });
                    }
                }
            }
        }
    } else {
        // FreeAll: allocate a few blocks so that threads have something to free
        for _ in 0..rng.range(0, 8) {
            let o = *rng.pick(&[0usize, 0, 0, 3, 6, 7, HUGE_ORDER]);
            let c = if o >= HUGE_ORDER { huge_class } else { small_class };
            let slot = slot_choice(&mut rng, &cfg, c, 0, 3);
            h.exec(Op::Get { order: o, class: c, slot });
        }
        if family == "shared-slot" || rng.chance(1, 3) {
            // nearly exhaust: fill all but one or two trees
            for t in 0..(frames / TREE_FRAMES).saturating_sub(rng.range(1, 3)) {
                h.exec(Op::GetAt { frame: t * TREE_FRAMES, order: TREE_ORDER, class: huge_class, slot: None });
            }
        }
    }
    if rng.chance(1, 3) {
        h.exec(Op::Drain);
    }
    if h.dead || !h.viols.is_empty() {
        return None;
    }
    // ---- holdings: blocks the threads may free. Whole huge frames of AllocAll are only handed out
    //      sparingly (at most 6 blocks per thread), split-race parts go to different threads.
    let mut holdings: Vec<(Block, u8, usize)> = Vec::new();
    const NOBODY: usize = usize::MAX;
    if family == "split-race" {
        // the threads hold *parts* of one whole huge frame: carve the held block up in the bookkeeping only
        let hf = split_parts.first().map(|b| b.frame / HUGE_FRAMES * HUGE_FRAMES)?;
        let hb = Block { frame: hf, order: HUGE_ORDER };
        let class = h.held.iter().find(|x| x.b == hb)?.class;
        let mut pieces: Vec<(Block, usize)> = vec![(hb, NOBODY)];
        for (i, p) in split_parts.iter().enumerate() {
            let Some(pos) = pieces.iter().position(|(b, o)| *o == NOBODY && b.contains(p.frame) && b.order >= p.order) else { continue };
            let (b, _) = pieces.remove(pos);
            for r in crate::model::Model::split_remaining(b, *p) {
                pieces.push((r, NOBODY));
            }
            pieces.push((*p, i % nthreads));
        }
        for (b, o) in pieces {
            holdings.push((b, class, o));
        }
        for x in h.held.iter().filter(|x| x.b != hb) {
            holdings.push((x.b, x.class, NOBODY));
        }
    } else {
        let mut cands: Vec<(Block, u8)> = h.held.iter().map(|x| (x.b, x.class)).collect();
        rng.shuffle(&mut cands);
        let give = nthreads * rng.range(1, 5);
        for (i, (b, c)) in cands.into_iter().enumerate() {
            holdings.push((b, c, if i < give { i % nthreads } else { NOBODY }));
        }
    }
    // NOTE: blocks held after the prefix but not given to a thread simply stay allocated.
    let held_all: Vec<Block> = h.held.iter().map(|x| x.b).collect();
    // ---- thread programs
    let slot_mode = rng.below(4);
    let model = &h.model;
    let free_block = |rng: &mut Rng, order: usize| -> Option<usize> {
        let n = 1usize << order;
        let cnt = frames / n;
        if cnt == 0 {
            return None;
        }
        let s = rng.below(cnt);
        (0..cnt).map(|i| ((s + i) % cnt) * n).find(|&f| model.block_free(Block { frame: f, order }))
    };
    let mut progs: Vec<Vec<TOp>> = Vec::new();
    let shared_target_order = *rng.pick(&[0usize, 3, 6, 7, 8, HUGE_ORDER, (HUGE_ORDER + 1).min(TREE_ORDER)]);
    let shared_target = free_block(&mut rng, shared_target_order);
    for t in 0..nthreads {
        let len = rng.range(1, 7);
        let mut p = Vec::new();
        for _ in 0..len {
            let small_orders: &[usize] = &[0, 0, 1, 2, 3, 4, 5, 6];
            let op = match family {
                "rows-race" => {
                    let o = *rng.pick(&[7usize, 7, 8, 8, HUGE_ORDER - 1, 6]);
                    match rng.below(10) {
                        0..=6 => TOp::Get { order: o, class: small_class, slot: slot_choice(&mut rng, &cfg, small_class, t, slot_mode) },
                        7 => TOp::Get { order: 0, class: small_class, slot: slot_choice(&mut rng, &cfg, small_class, t, slot_mode) },
                        _ => TOp::Put { idx: rng.below(8), part: None, slot: slot_choice(&mut rng, &cfg, small_class, t, slot_mode) },
                    }
                }
                "narrow-wide" => {
                    let o = *rng.pick(small_orders);
                    match rng.below(10) {
                        0..=6 => TOp::Get { order: o, class: small_class, slot: slot_choice(&mut rng, &cfg, small_class, t, slot_mode) },
                        _ => TOp::Put { idx: rng.below(8), part: if rng.chance(1, 2) { Some((rng.below(4), rng.below(64))) } else { None }, slot: None },
                    }
                }
                "multi-huge" => {
                    let o = *rng.pick(&[HUGE_ORDER, (HUGE_ORDER + 1).min(TREE_ORDER), (HUGE_ORDER + 1).min(TREE_ORDER), TREE_ORDER, 0]);
                    let c = if o >= HUGE_ORDER { huge_class } else { small_class };
                    match rng.below(10) {
                        0..=5 => TOp::Get { order: o, class: c, slot: slot_choice(&mut rng, &cfg, c, t, slot_mode) },
                        6 => match free_block(&mut rng, o) {
                            Some(f) => TOp::GetAt { frame: f, order: o, class: c, slot: slot_choice(&mut rng, &cfg, c, t, slot_mode) },
                            None => TOp::Drain,
                        },
                        _ => TOp::Put { idx: rng.below(8), part: if rng.chance(1, 3) { Some((HUGE_ORDER, rng.below(4))) } else { None }, slot: slot_choice(&mut rng, &cfg, c, t, slot_mode) },
                    }
                }
                "target-same" => match (shared_target, rng.below(10)) {
                    (Some(f), 0..=5) => TOp::GetAt { frame: f, order: shared_target_order, class: small_class, slot: slot_choice(&mut rng, &cfg, small_class, t, slot_mode) },
                    (Some(f), 6) if shared_target_order > 0 => {
                        // a part of / the parent of the contested block
                        let o = shared_target_order - 1;
                        TOp::GetAt { frame: f + (rng.below(2) << o), order: o, class: small_class, slot: None }
                    }
                    (_, 7) => TOp::Get { order: *rng.pick(small_orders), class: small_class, slot: slot_choice(&mut rng, &cfg, small_class, t, slot_mode) },
                    _ => TOp::Put { idx: rng.below(8), part: None, slot: None },
                },
                "split-race" => match rng.below(12) {
                    0..=5 => TOp::Put { idx: rng.below(8), part: None, slot: slot_choice(&mut rng, &cfg, small_class, t, slot_mode) },
                    6 | 7 => TOp::Get { order: *rng.pick(small_orders), class: small_class, slot: slot_choice(&mut rng, &cfg, small_class, t, slot_mode) },
                    8..=10 => {
                        // targeted allocation somewhere inside the huge frame that is being split: succeeds only
                        // for frames another thread has freed, never for the parts still held
                        let hf = split_parts.first().map(|b| b.frame / HUGE_FRAMES * HUGE_FRAMES).unwrap_or(0);
                        let o = *rng.pick(&[0usize, 0, 0, 3, 6]);
                        TOp::GetAt { frame: hf + (rng.below(HUGE_FRAMES >> o) << o), order: o, class: small_class, slot: slot_choice(&mut rng, &cfg, small_class, t, slot_mode) }
                    }
                    _ => TOp::Drain,
                },
                "drain-race" => match (t, rng.below(10)) {
                    (0, 0..=5) => TOp::Drain,
                    (_, 0..=6) => {
                        let c = cfg.classes[rng.below(cfg.classes.len())].0;
                        TOp::Get { order: *rng.pick(&[0usize, 0, 3, 6, HUGE_ORDER]), class: c, slot: slot_choice(&mut rng, &cfg, c, t, 0) }
                    }
                    _ => TOp::Put { idx: rng.below(8), part: None, slot: Some(0) },
                },
                _ => {
                    // alloc-free, shared-slot, mixed
                    let c = cfg.classes[rng.below(cfg.classes.len())].0;
                    let sm = if family == "shared-slot" { 0 } else { slot_mode };
                    match rng.below(20) {
                        0..=8 => {
                            let o = *rng.pick(&[0usize, 0, 0, 1, 3, 6, 7, 8, HUGE_ORDER, (HUGE_ORDER + 1).min(TREE_ORDER)]);
                            TOp::Get { order: o, class: c, slot: slot_choice(&mut rng, &cfg, c, t, sm) }
                        }
                        9 | 10 => {
                            let o = *rng.pick(&[0usize, 3, 6, 7, HUGE_ORDER]);
                            match (free_block(&mut rng, o), held_all.is_empty(), rng.chance(1, 3)) {
                                (_, false, true) => {
                                    // a block somebody holds (or held): must fail or succeed consistently
                                    let b = held_all[rng.below(held_all.len())];
                                    TOp::GetAt { frame: b.frame, order: b.order, class: c, slot: slot_choice(&mut rng, &cfg, c, t, sm) }
                                }
                                (Some(f), _, _) => TOp::GetAt { frame: f, order: o, class: c, slot: slot_choice(&mut rng, &cfg, c, t, sm) },
                                _ => TOp::Drain,
                            }
                        }
                        11..=15 => {
                            let part = if rng.chance(1, 3) { Some((*rng.pick(&[0usize, 0, 3, 6, 7]), rng.below(512))) } else { None };
                            TOp::Put { idx: rng.below(8), part, slot: slot_choice(&mut rng, &cfg, c, t, sm) }
                        }
                        16 | 17 => TOp::Drain,
                        _ => TOp::Change {
                            id: if rng.chance(1, 2) { Some(rng.below(frames.div_ceil(TREE_FRAMES))) } else { None },
                            mclass: if rng.chance(1, 2) { Some(c) } else { None },
                            mfree: *rng.pick(&[0usize, 1, TREE_FRAMES / 2, TREE_FRAMES]),
                            nclass: cfg.classes[rng.below(cfg.classes.len())].0,
                        },
                    }
                }
            };
            p.push(op);
        }
        progs.push(p);
    }
    let prefix = h.log.clone();
    Some(Scen { family, seed, frames, init, cfg, prefix, holdings, progs })
}

fn scen_json(sc: &Scen) -> J {
    J::obj()
        .with("family", sc.family)
        .with("seed", sc.seed)
        .with("frames", sc.frames)
        .with("init", crate::sut::init_name(sc.init))
        .with("cfg", sc.cfg.name)
        .with("prefix", J::Arr(sc.prefix.iter().map(|o| J::from(o.short())).collect()))
        .with("holdings", J::Arr(sc.holdings.iter().map(|(b, _, t)| J::from(format!("T{t}:({},o{})", b.frame, b.order))).collect()))
        .with("threads", J::Arr(sc.progs.iter().map(|p| J::Arr(p.iter().map(|o| J::from(o.short())).collect())).collect()))
}

fn replay_json(prop: &str, sc: &Scen, st: &Strategy, crash_every: u64, msg: &str) -> J {
    J::obj()
        .with("engine", "sched")
        .with("property", prop)
        .with("geometry", crate::geometry())
        .with("family", sc.family)
        .with("scenario_seed", sc.seed)
        .with("strategy", st.to_json())
        .with("crash_every", crash_every)
        .with("scenario", scen_json(sc))
        .with("message", msg)
}

struct Acc {
    runs: u64,
    gates: u64,
    nontrivial: BTreeSet<u64>,
    schedules: BTreeSet<u64>,
    conflicts: BTreeSet<(usize, usize)>,
    solo_calls: u64,
    solo_max: u64,
    max_call_gates: u64,
    crash_points: u64,
    harness_errors: u64,
}

fn absorb(rep: &mut Report, acc: &mut Acc, prop: &str, sc: &Scen, st: &Strategy, crash_every: u64, out: &RunOut) {
    acc.runs += 1;
    rep.evaluations += 1;
    rep.calls += out.calls;
    acc.gates += out.gates;
    if acc.schedules.len() < crate::STATES_CAP {
        acc.schedules.insert(out.sched_hash ^ sc.seed.rotate_left(17));
    }
    if !out.conflicts.is_empty() && acc.nontrivial.len() < crate::STATES_CAP {
        acc.nontrivial.insert(out.sched_hash ^ sc.seed.rotate_left(17));
    }
    for c in &out.conflicts {
        acc.conflicts.insert(*c);
    }
    acc.solo_calls += out.solo_calls;
    acc.solo_max = acc.solo_max.max(out.solo_max);
    acc.max_call_gates = acc.max_call_gates.max(out.max_call_gates);
    acc.crash_points += out.crash_points;
    rep.add(&format!("runs_{}", sc.family), 1);
    rep.add("ok_gets", out.ok_gets);
    rep.add("failed_gets", out.failed_gets);
    rep.add("thread_switches", out.switches);
    if let Some(e) = &out.harness_error {
        acc.harness_errors += 1;
        if rep.notes.len() < 5 {
            rep.notes.push(format!("harness: {e}"));
        }
    }
    for v in &out.viols {
        if v.props.contains(&prop) {
            let msg = format!("[{} seed {} {:?}] {}", sc.family, sc.seed, st, v.msg);
            rep.violation(prop, &msg, || replay_json(prop, sc, st, crash_every, &msg));
        } else {
            rep.other(&crate::oracle::Viol { props: v.props, msg: v.msg.clone() });
        }
    }
}

pub fn run(args: &Args) -> Report {
    let prop = args.prop.as_str();
    let mut rep = Report::new(prop, "sched");
    let deadline = Instant::now() + Duration::from_millis(args.budget_ms);
    let mut master = Rng::new(args.seed.wrapping_mul(0x77).wrapping_add(args.shard as u64 * 0x1_0001));
    let fams: Vec<&'static str> = match args.extra.get("family") {
        Some(f) => FAMILIES.iter().copied().filter(|x| x == f).collect(),
        None => match prop {
            "C01" => vec!["rows-race", "split-race", "narrow-wide", "multi-huge", "target-same", "alloc-free", "shared-slot", "mixed", "rows-race"],
            "C03" => vec!["split-race", "drain-race", "shared-slot", "rows-race", "multi-huge", "target-same", "mixed", "alloc-free"],
            "C21" => vec!["split-race", "rows-race", "shared-slot", "mixed", "drain-race", "multi-huge", "narrow-wide"],
            "C05" => vec!["alloc-free", "split-race", "rows-race", "multi-huge", "narrow-wide", "mixed"],
            "C13" => vec!["shared-slot", "mixed", "drain-race", "alloc-free"],
            _ => FAMILIES.to_vec(),
        },
    };
    let crash_every: u64 = if prop == "C05" { 1 } else { 0 };
    let step_budget: u64 = args.extra.get("step-budget").map(|s| s.parse().unwrap()).unwrap_or(20_000);
    let rc = RunCfg { crash_every, step_budget, final_check: true };
    let mut acc = Acc {
        runs: 0,
        gates: 0,
        nontrivial: BTreeSet::new(),
        schedules: BTreeSet::new(),
        conflicts: BTreeSet::new(),
        solo_calls: 0,
        solo_max: 0,
        max_call_gates: 0,
        crash_points: 0,
        harness_errors: 0,
    };
    let mut sweeps_complete = 0u64;
    let mut grids_complete = 0u64;
    let mut i = 0u64;
    while Instant::now() < deadline {
        i += 1;
        let fam = fams[(i as usize) % fams.len()];
        let sseed = master.next() >> 8;
        let Some(sc) = gen_scenario(fam, sseed) else {
            rep.add("scenario_generation_failed", 1);
            continue;
        };
        let n = sc.progs.len();
        let mut cache = RunCache::default();
        if rep.samples.len() < 3 {
            rep.samples.push(scen_json(&sc));
        }
        // (1) baseline run: learn the gate counts (victim 0 never stalls)
        let base = Strategy::Walk { seed: 0 };
        let out0 = run_once(&sc, &Strategy::Stall { victim: 0, k: u64::MAX, order_rot: 0, burst: 0 }, &rc, &mut cache);
        absorb(&mut rep, &mut acc, prop, &sc, &base, crash_every, &out0);
        if out0.harness_error.is_some() {
            continue;
        }
        let est = out0.gates.max(4);
        let mut srng = master.fork(i);
        if prop == "C21" {
            // solo mode at every gate of the (random-walk) schedule for small scenarios, sampled otherwise
            let wseed = srng.next();
            let ps: Vec<u64> = if est <= 400 { (1..=est + 4).collect() } else { (0..300).map(|_| 1 + srng.below(est as usize) as u64).collect() };
            for (j, p) in ps.iter().enumerate() {
                if Instant::now() > deadline {
                    break;
                }
                let st = Strategy::Solo { seed: wseed.wrapping_add((j / 97) as u64), p: *p, rot: j % n };
                let out = run_once(&sc, &st, &rc, &mut cache);
                absorb(&mut rep, &mut acc, prop, &sc, &st, crash_every, &out);
            }
            continue;
        }
        // (2) complete one-stall sweep: every victim, every gate of the victim
        let mut complete = true;
        'sweep: for victim in 0..n {
            let mut k = 1u64;
            loop {
                if Instant::now() > deadline {
                    complete = false;
                    break 'sweep;
                }
                let st = Strategy::Stall { victim, k, order_rot: (k as usize) % 2, burst: 0 };
                let out = run_once(&sc, &st, &rc, &mut cache);
                let reached = out.per_thread_gates.get(victim).copied().unwrap_or(0) >= k;
                absorb(&mut rep, &mut acc, prop, &sc, &st, crash_every, &out);
                if !reached || out.harness_error.is_some() || k > 3000 {
                    break;
                }
                k += 1;
            }
        }
        if complete {
            sweeps_complete += 1;
        }
        // (2b) complete two-preemption grid for small scenarios: the victim stalls at its gate k, the next
        //      thread runs exactly b gates, the victim runs to completion, then the rest
        let grid_cap: u64 = if args.tier_thorough { 8000 } else { 500 };
        if complete {
            let g = out0.per_thread_gates.clone();
            for victim in 0..n {
                let other = (victim + 1) % n;
                let (gv, go) = (g.get(victim).copied().unwrap_or(0) + 2, g.get(other).copied().unwrap_or(0) + 2);
                if gv * go > grid_cap || n < 2 {
                    continue;
                }
                let mut done_grid = true;
                'grid: for k in 1..=gv {
                    for b in 1..=go {
                        if Instant::now() > deadline {
                            done_grid = false;
                            break 'grid;
                        }
                        let st = Strategy::Stall { victim, k, order_rot: 0, burst: b };
                        let out = run_once(&sc, &st, &rc, &mut cache);
                        absorb(&mut rep, &mut acc, prop, &sc, &st, crash_every, &out);
                    }
                }
                if done_grid {
                    grids_complete += 1;
                }
            }
        }
        // (3) stall with bounded bursts, random walks, PCT
        let extra = if args.tier_thorough { 120 } else { 40 };
        for j in 0..extra {
            if Instant::now() > deadline {
                break;
            }
            let st = match j % 4 {
                0 => Strategy::Stall { victim: srng.below(n), k: 1 + srng.below(est as usize) as u64, order_rot: srng.below(2), burst: 1 + srng.below(12) as u64 },
                1 => Strategy::Walk { seed: srng.next() },
                _ => Strategy::Pct { seed: srng.next(), d: 1 + srng.below(3), est },
            };
            let out = run_once(&sc, &st, &rc, &mut cache);
            absorb(&mut rep, &mut acc, prop, &sc, &st, crash_every, &out);
        }
    }
    rep.add("scenarios", i);
    rep.add("one_stall_sweeps_complete", sweeps_complete);
    rep.add("two_preemption_grids_complete", grids_complete);
    rep.add("gates", acc.gates);
    rep.add("distinct_schedules", acc.schedules.len() as u64);
    rep.add("distinct_conflict_signatures", acc.conflicts.len() as u64);
    rep.add("solo_calls_completed_alone", acc.solo_calls);
    rep.set("max_gates_of_one_call_alone", acc.solo_max);
    rep.set("max_gates_of_one_call", acc.max_call_gates);
    rep.add("harness_errors", acc.harness_errors);
    rep.crash_points = acc.crash_points;
    rep.states = acc.nontrivial;
    // conflict signatures as code-site pairs
    for (a, b) in acc.conflicts.iter().take(400) {
        let la = unsafe { &*(*a as *const std::panic::Location<'static>) };
        let lb = unsafe { &*(*b as *const std::panic::Location<'static>) };
        let short = |l: &std::panic::Location<'static>| format!("{}:{}", l.file().rsplit('/').next().unwrap_or(""), l.line());
        rep.tuples.insert(format!("{} -> {}", short(la), short(lb)));
    }
    rep
}

pub fn replay(j: &J) -> Report {
    let prop = j.get("property").and_then(|p| p.as_str()).unwrap_or("C01").to_string();
    let mut rep = Report::new(&prop, "sched-replay");
    let fam = j.get("family").and_then(|f| f.as_str()).unwrap_or("mixed");
    let fam: &'static str = FAMILIES.iter().copied().find(|f| *f == fam).unwrap_or("mixed");
    let seed = j.get("scenario_seed").and_then(|s| s.as_u64()).unwrap();
    let st = Strategy::from_json(j.get("strategy").unwrap()).expect("strategy");
    let crash_every = j.get("crash_every").and_then(|c| c.as_u64()).unwrap_or(0);
    let Some(sc) = gen_scenario(fam, seed) else {
        rep.notes.push("scenario generation failed".into());
        return rep;
    };
    let rc = RunCfg { crash_every, step_budget: 20_000, final_check: true };
    let mut cache = RunCache::default();
    let out = run_once(&sc, &st, &rc, &mut cache);
    let mut acc = Acc {
        runs: 0,
        gates: 0,
        nontrivial: BTreeSet::new(),
        schedules: BTreeSet::new(),
        conflicts: BTreeSet::new(),
        solo_calls: 0,
        solo_max: 0,
        max_call_gates: 0,
        crash_points: 0,
        harness_errors: 0,
    };
    absorb(&mut rep, &mut acc, &prop, &sc, &st, crash_every, &out);
    rep.samples.push(scen_json(&sc));
    rep
}
