//! Sequential monitors with their own scenario families:
//! C06 (initialisation for every frame count), C07 (Init::None hand-off differential),
//! C08 (invalid arguments / invalid buffers), C11 (single slot), C17 (zone / persistent wrappers).

use std::collections::BTreeSet;
use std::time::{Duration, Instant};

use llfree::frame::Frame;
use llfree::wrapper::{NvmAlloc, ZoneAlloc};
use llfree::{
    Alloc, Class, Error, FrameId, HUGE_FRAMES, HUGE_ORDER, Init, LLFree, MetaData, TREE_FRAMES, TREE_HUGE, TREE_ORDER,
    TreeChange, TreeId, TreeMatch, TreeOperation,
};

use crate::bufs::{Buf, Place, catch, default_place};
use crate::cfgs::Cfg;
use crate::generator::{Emph, Gen};
use crate::hist::{Hist, Opts};
use crate::json::J;
use crate::model::{Block, Model};
use crate::ops::Op;
use crate::oracle::{compare, compare_class_stats};
use crate::rng::Rng;
use crate::seq::{Scenario, cfgs_for, collect, frame_counts, replay_json};
use crate::sut::{NewErr, Sut};
use crate::{Args, Report};

fn simple_replay(engine: &str, prop: &str, msg: &str, extra: J) -> J {
    J::obj().with("engine", engine).with("property", prop).with("geometry", crate::geometry()).with("message", msg).with("case", extra)
}

// ---------------------------------------------------------------------------------------------
// C06

/// All frame counts of this shard
fn c06_counts(args: &Args) -> Vec<usize> {
    let mut v: BTreeSet<usize> = BTreeSet::new();
    let dense_all = !cfg!(feature = "16K") && TREE_HUGE <= 4;
    let max = if dense_all { 4 * TREE_FRAMES + HUGE_FRAMES + 65 } else { 3 * TREE_FRAMES + HUGE_FRAMES + 65 };
    if dense_all && (args.tier_thorough || TREE_FRAMES <= 2048) {
        v.extend(1..=max);
    } else {
        // densely around every huge-frame and tree boundary
        let mut b = 0;
        while b <= max {
            for d in 0..=65usize {
                v.insert(b + d);
                if b >= d {
                    v.insert(b - d);
                }
            }
            b += HUGE_FRAMES;
        }
        v.extend(1..=130);
    }
    v.remove(&0);
    v.into_iter().enumerate().filter(|(i, _)| i % args.shards == args.shard).map(|(_, f)| f).collect()
}

fn c06_one(frames: usize, place: Place, rep: &mut Report, rng: &mut Rng) {
    let cfg = Cfg::simple(1);
    let mut fails: Vec<String> = Vec::new();
    let trees = frames.div_ceil(TREE_FRAMES);
    let r: Result<(), String> = (|| {
        // ---- FreeAll: closed form + full query set
        let s = Sut::new(frames, Init::FreeAll, &cfg, place).map_err(|e| format!("FreeAll construction: {e:?}"))?;
        let a = s.a();
        let st = a.stats();
        if st.free_frames != frames || st.free_huge != frames / HUGE_FRAMES || st.free_trees != frames / TREE_FRAMES {
            fails.push(format!("FreeAll stats() = {st:?}, expected free_frames={frames} free_huge={} free_trees={}", frames / HUGE_FRAMES, frames / TREE_FRAMES));
        }
        let ts = a.tree_stats();
        if ts.free_frames != frames {
            fails.push(format!("FreeAll tree_stats().free_frames = {} expected {frames}", ts.free_frames));
        }
        let m = Model::new_free(frames);
        let mut out = Vec::new();
        compare(a, &m, rng, &mut out);
        for v in out {
            fails.push(format!("FreeAll: {}", v.msg));
        }
        // no frame at or beyond the managed count is reported free (within the last, partially managed huge frame)
        for f in frames..frames.next_multiple_of(HUGE_FRAMES) {
            if a.stats_at(FrameId(f), 0).free_frames != 0 {
                fails.push(format!("FreeAll: frame {f} >= managed count {frames} reported free"));
                break;
            }
        }
        // every managed frame can be allocated exactly once by a targeted request; frames beyond are rejected
        let req = cfg.request(0, 0, None);
        for f in 0..frames {
            match a.get(Some(FrameId(f)), req) {
                Ok((g, _)) if g.0 == f => {}
                r => {
                    fails.push(format!("FreeAll: targeted get of managed frame {f} -> {r:?}"));
                    break;
                }
            }
        }
        for f in frames..frames + 70 {
            match a.get(Some(FrameId(f)), req) {
                Err(Error::Argument) => {}
                r => {
                    fails.push(format!("FreeAll: targeted get of unmanaged frame {f} -> {r:?}"));
                    break;
                }
            }
        }
        if a.stats().free_frames != 0 {
            fails.push(format!("after allocating every frame stats().free_frames = {}", a.stats().free_frames));
        }
        if let Ok(x) = a.get(None, req) {
            fails.push(format!("allocation succeeded on a full allocator: {x:?}"));
        }
        drop(s);

        // ---- FreeAll: untargeted exhaustion at base order hands out exactly `frames` distinct managed frames
        let s = Sut::new(frames, Init::FreeAll, &cfg, place).map_err(|e| format!("FreeAll construction: {e:?}"))?;
        let a = s.a();
        let mut seen = vec![false; frames];
        let mut n = 0usize;
        loop {
            match a.get(None, req) {
                Ok((g, _)) => {
                    if g.0 >= frames || seen[g.0] {
                        fails.push(format!("exhaustion: frame {} handed out {} (managed {frames})", g.0, if g.0 >= frames { "beyond the managed count" } else { "twice" }));
                        break;
                    }
                    seen[g.0] = true;
                    n += 1;
                }
                Err(Error::Memory) => break,
                Err(e) => {
                    fails.push(format!("exhaustion: unexpected error {e:?}"));
                    break;
                }
            }
            if n > frames {
                break;
            }
        }
        if n != frames {
            fails.push(format!("exhaustion at order 0 handed out {n} frames, managed {frames}"));
        }
        drop(s);

        // ---- FreeAll: descending orders hand out exactly `frames` frames in disjoint in-range blocks
        let s = Sut::new(frames, Init::FreeAll, &cfg, place).map_err(|e| format!("FreeAll construction: {e:?}"))?;
        let a = s.a();
        let mut seen = vec![false; frames];
        let mut total = 0usize;
        'desc: for order in (0..=TREE_ORDER).rev() {
            if (1usize << order) > frames {
                continue;
            }
            let class = (order >= HUGE_ORDER) as u8;
            loop {
                match a.get(None, cfg.request(order, class, None)) {
                    Ok((g, _)) => {
                        let b = Block { frame: g.0, order };
                        if b.end() > frames || g.0 % b.len() != 0 || seen[b.frame..b.end()].iter().any(|x| *x) {
                            fails.push(format!("descending orders: block {b:?} out of range, misaligned or overlapping"));
                            break 'desc;
                        }
                        seen[b.frame..b.end()].fill(true);
                        total += b.len();
                    }
                    Err(Error::Memory) => break,
                    Err(e) => {
                        fails.push(format!("descending orders: unexpected error {e:?}"));
                        break 'desc;
                    }
                }
            }
        }
        if total != frames && fails.is_empty() {
            fails.push(format!("descending orders handed out {total} frames, managed {frames}"));
        }
        drop(s);

        // ---- AllocAll
        let s = Sut::new(frames, Init::AllocAll, &cfg, place).map_err(|e| format!("AllocAll construction: {e:?}"))?;
        let a = s.a();
        let st = a.stats();
        if st.free_frames != 0 || st.free_huge != 0 || st.free_trees != 0 || a.tree_stats().free_frames != 0 {
            fails.push(format!("AllocAll reports free memory: {st:?}, fast {}", a.tree_stats().free_frames));
        }
        let mut m = Model::new_alloc(frames);
        let mut out = Vec::new();
        compare(a, &m, rng, &mut out);
        for v in out {
            fails.push(format!("AllocAll: {}", v.msg));
        }
        for f in frames..frames.next_multiple_of(HUGE_FRAMES) {
            if a.stats_at(FrameId(f), 0).free_frames != 0 {
                fails.push(format!("AllocAll: frame {f} >= managed count {frames} reported free"));
                break;
            }
        }
        if let Ok(x) = a.get(None, req) {
            fails.push(format!("AllocAll: allocation succeeded: {x:?}"));
        }
        // every whole huge frame freed once at huge order, every other managed frame once at base order
        let blocks = Model::alloc_all_blocks(frames);
        // base frames inside a whole huge frame can also be freed (split) - checked by C02; here: the stated protocol
        for b in &blocks {
            let req = cfg.request(b.order, 0, None);
            match a.put(FrameId(b.frame), req) {
                Ok(()) => m.apply_put(*b),
                Err(e) => {
                    fails.push(format!("AllocAll: put({b:?}) failed: {e:?}"));
                    break;
                }
            }
            if let Ok(()) = a.put(FrameId(b.frame), req) {
                fails.push(format!("AllocAll: second put({b:?}) succeeded"));
                break;
            }
        }
        // all counts now match a FreeAll allocator
        let st = a.stats();
        if st.free_frames != frames || st.free_huge != frames / HUGE_FRAMES || st.free_trees != frames / TREE_FRAMES {
            fails.push(format!("AllocAll after freeing everything: stats() = {st:?}, expected ({frames},{},{})", frames / HUGE_FRAMES, frames / TREE_FRAMES));
        }
        if a.tree_stats().free_frames != frames {
            fails.push(format!("AllocAll after freeing everything: fast free = {} expected {frames}", a.tree_stats().free_frames));
        }
        let mut out = Vec::new();
        compare(a, &m, rng, &mut out);
        compare_class_stats(a, &m, &mut out);
        for v in out {
            if !v.props.contains(&"C14") {
                fails.push(format!("AllocAll after freeing everything: {}", v.msg));
            }
        }
        // ... including: no frame at or beyond the managed count is reported free or handed out
        for f in frames..frames.next_multiple_of(HUGE_FRAMES) + 1 {
            if f < trees * TREE_FRAMES && a.stats_at(FrameId(f), 0).free_frames != 0 {
                fails.push(format!("AllocAll after freeing everything: frame {f} >= managed count {frames} reported free"));
                break;
            }
        }
        let mut seen = vec![false; frames];
        let mut n = 0usize;
        // start the search in the last (possibly partial) huge frame: free its last managed frame last
        loop {
            match a.get(None, cfg.request(0, 0, if n % 2 == 0 { Some(0) } else { None })) {
                Ok((g, _)) => {
                    if g.0 >= frames || seen[g.0] {
                        fails.push(format!("AllocAll, freed everything, exhaustion: frame {} handed out {} (managed {frames})", g.0, if g.0 >= frames { "beyond the managed count" } else { "twice" }));
                        break;
                    }
                    seen[g.0] = true;
                    n += 1;
                }
                Err(Error::Memory) => break,
                Err(e) => {
                    fails.push(format!("AllocAll, freed everything, exhaustion: unexpected error {e:?}"));
                    break;
                }
            }
            if n > frames {
                break;
            }
        }
        if n != frames && fails.is_empty() {
            fails.push(format!("AllocAll, freed everything: exhaustion at order 0 handed out {n} frames, managed {frames}"));
        }
        drop(s);

        // ---- AllocAll, only the partially managed last huge frame touched: free some of its base frames
        //      (first, last, a few random), then allocate: only those frames may come back
        let part = frames % HUGE_FRAMES;
        if part > 0 {
            let s = Sut::new(frames, Init::AllocAll, &cfg, place).map_err(|e| format!("AllocAll construction: {e:?}"))?;
            let a = s.a();
            let base = frames - part;
            let mut freed: BTreeSet<usize> = BTreeSet::new();
            freed.insert(base);
            freed.insert(frames - 1);
            for _ in 0..3 {
                freed.insert(base + rng.below(part));
            }
            for &f in &freed {
                if let Err(e) = a.put(FrameId(f), req) {
                    fails.push(format!("AllocAll: put of base frame {f} in the partial last huge frame failed: {e:?}"));
                }
            }
            for f in frames..frames.next_multiple_of(HUGE_FRAMES) {
                if a.stats_at(FrameId(f), 0).free_frames != 0 {
                    fails.push(format!("AllocAll + frees in the partial last huge frame: frame {f} >= managed count {frames} reported free"));
                    break;
                }
            }
            if a.stats().free_frames != freed.len() {
                fails.push(format!("AllocAll + {} frees in the partial last huge frame: stats().free_frames = {}", freed.len(), a.stats().free_frames));
            }
            let mut got = BTreeSet::new();
            for i in 0..freed.len() + 2 {
                // alternate between a slot (row hint of the reservation) and no slot
                match a.get(None, cfg.request(0, 0, if i % 2 == 0 { Some(0) } else { None })) {
                    Ok((g, _)) => {
                        if !freed.contains(&g.0) || !got.insert(g.0) {
                            fails.push(format!("AllocAll + frees {freed:?}: allocation handed out frame {} (managed {frames})", g.0));
                            break;
                        }
                    }
                    Err(Error::Memory) => break,
                    Err(e) => {
                        fails.push(format!("AllocAll + frees in the partial last huge frame: unexpected error {e:?}"));
                        break;
                    }
                }
            }
            if got.len() != freed.len() && fails.is_empty() {
                fails.push(format!("AllocAll + frees {freed:?}: only {} of them could be allocated again", got.len()));
            }
        }
        Ok(())
    })();
    if let Err(e) = r {
        fails.push(e);
    }
    for f in fails.iter().take(3) {
        let msg = format!("frames={frames}: {f}");
        rep.violation("C06", &msg, || simple_replay("init", "C06", &msg, J::obj().with("frames", frames)));
    }
}

pub fn run_init(args: &Args) -> Report {
    let mut rep = Report::new("C06", "init");
    let deadline = Instant::now() + Duration::from_millis(args.budget_ms);
    let mut rng = Rng::new(args.seed);
    let counts = if let Some(f) = args.extra.get("frames") { vec![f.parse().unwrap()] } else { c06_counts(args) };
    let mut done = 0usize;
    // boundary counts first, then the rest, so that a short budget still covers the interesting ones
    let mut order: Vec<usize> = counts.clone();
    order.sort_by_key(|f| {
        let d = f % HUGE_FRAMES;
        d.min(HUGE_FRAMES - d)
    });
    for (i, frames) in order.iter().enumerate() {
        if Instant::now() > deadline {
            break;
        }
        let catchr = catch(|| c06_one(*frames, default_place(i as u64), &mut rep, &mut rng));
        if let Err(p) = catchr {
            let msg = format!("frames={frames}: panicked: {p}");
            rep.violation("C06", &msg, || simple_replay("init", "C06", &msg, J::obj().with("frames", *frames)));
        }
        done += 1;
        rep.evaluations += 1;
        rep.states.insert(*frames as u64);
    }
    rep.add("frame_counts_planned", counts.len() as u64);
    rep.add("frame_counts_done", done as u64);
    rep.samples.push(J::obj().with("frame_counts_first", order.iter().take(12).copied().collect::<Vec<_>>()).with("checks", "FreeAll closed form + model compare + targeted get of every frame + exhaustion at order 0 + descending orders; AllocAll: nothing free, free every whole huge frame / remaining base frame exactly once, compare with FreeAll"));
    rep
}

// ---------------------------------------------------------------------------------------------
// C11

pub fn run_single(args: &Args) -> Report {
    let mut rep = Report::new("C11", "single");
    let deadline = Instant::now() + Duration::from_millis(args.budget_ms);
    let mut master = Rng::new(args.seed.wrapping_mul(131).wrapping_add(args.shard as u64));
    let mut i = 0u64;
    let mut boundary = 0u64;
    while Instant::now() < deadline {
        i += 1;
        let mut rng = master.fork(i);
        // one class with one slot - alone, or as one of the classes of the repository's classings (the other
        // classes are configured but never requested: all calls are base-order requests of class `cls`, slot 0)
        let cfg = Cfg::by_name(*rng.pick(&["single", "single", "simple", "movable", "zeroed"]), 1);
        let cls = cfg.classes.iter().find(|(_, n)| *n >= 1).map(|(c, _)| *c).unwrap_or(0);
        let trees = if rng.chance(1, 6) { rng.range(5, 12) } else { rng.range(2, 5) };
        let frames = trees * TREE_FRAMES
            - match rng.below(6) {
                0 | 1 => rng.below(HUGE_FRAMES + 66),
                2 => rng.below(TREE_FRAMES - 1),
                _ => 0,
            };
        let init = if rng.chance(1, 3) { Init::AllocAll } else { Init::FreeAll };
        let sc = Scenario { frames, init, cfg: cfg.clone(), place: default_place(i) };
        let Ok(mut h) = Hist::start(frames, init, &cfg, sc.place, i, Opts { compare_every: 64, ..Opts::default() }) else {
            continue;
        };
        rep.tuples.insert(format!("cfg={} init={}", cfg.name, crate::sut::init_name(init)));
        let get = Op::Get { order: 0, class: cls, slot: Some(0) };
        let oom_check = |h: &mut Hist, rep: &mut Report, sc: &Scenario, what: &str| {
            // the last call was a failing get: it must only fail if nothing is free
            let free = h.model.free_frames();
            if free > 0 && !h.dead {
                let msg = format!("{what}: single-slot base-order get fails with Memory although {free} frame(s) are free (step {})", h.log.len());
                let v = crate::oracle::viol(&["C11"], msg.clone());
                rep.violation("C11", &msg, || replay_json("C11", sc, &h.opts, &h.log, &v));
                return false;
            }
            true
        };
        // exhaust
        let mut exhaust = |h: &mut Hist, rep: &mut Report, what: &str| -> bool {
            loop {
                let before = h.st.err_mem;
                h.exec(get.clone());
                if h.dead {
                    return false;
                }
                if h.st.err_mem > before {
                    return oom_check(h, rep, &sc, what);
                }
            }
        };
        if !exhaust(&mut h, &mut rep, "initial exhaustion") {
            collect(&mut rep, "C11", &sc, &h);
            continue;
        }
        let rounds = rng.range(2, 6);
        for round in 0..rounds {
            if h.dead {
                break;
            }
            // boundary families: free n frames of ONE tree - the slot's own reserved tree (as the allocator
            // itself reports it) or another one - without slot, through the slot, or mixed; n from 1..3
            // up to the whole tree, around the row / huge-frame / half-tree boundaries
            let kind = rng.below(4);
            let boundary_round = kind < 2;
            if boundary_round {
                boundary += 1;
                let ntrees = frames.div_ceil(TREE_FRAMES);
                let reserved: Vec<usize> = (0..ntrees).filter(|&t| h.sut.a().trees.stats_at(TreeId(t)).2).collect();
                let tree = if !reserved.is_empty() && rng.chance(3, 4) { reserved[0] } else { rng.below(ntrees) };
                let in_tree: Vec<usize> = h.held.iter().map(|x| x.b.frame).filter(|f| f / TREE_FRAMES == tree).collect();
                if in_tree.is_empty() {
                    continue;
                }
                let rnd_n = 1 + rng.below(TREE_FRAMES);
                let n = if kind == 0 {
                    rng.range(1, 4)
                } else {
                    *rng.pick(&[1usize, 2, 3, 4, 63, 64, 65, HUGE_FRAMES - 1, HUGE_FRAMES, HUGE_FRAMES + 1, TREE_FRAMES / 2 - 1, TREE_FRAMES / 2,
                        TREE_FRAMES / 2 + 1, TREE_FRAMES - 1, TREE_FRAMES, rnd_n])
                }
                .min(in_tree.len());
                let mode = if kind == 0 { 0 } else { rng.below(4) }; // 0,1: without slot; 2: through the slot; 3: mixed
                let start = match rng.below(3) {
                    0 => 0,
                    1 => in_tree.len() - n,
                    _ => rng.below(in_tree.len() - n + 1),
                };
                let mut sorted = in_tree.clone();
                sorted.sort_unstable();
                for &f in &sorted[start..start + n] {
                    let slot = match mode {
                        0 | 1 => None,
                        2 => Some(0),
                        _ => if rng.chance(1, 2) { Some(0) } else { None },
                    };
                    if h.model.alloc[f] {
                        h.exec(Op::Put { frame: f, order: 0, class: cls, slot });
                    }
                }
                rep.tuples.insert(format!("one-tree frees: reserved_tree={} n_class={} mode={mode}", reserved.contains(&tree),
                    match n { 0..=3 => "1-3", 4..=65 => "4-65", x if x < TREE_FRAMES / 2 => "<half", x if x < TREE_FRAMES => ">=half", _ => "whole" }));
            } else {
                // free a random subset, each frame either through the slot or without
                let p = *rng.pick(&[1usize, 2, 10, 50, 90]);
                let frames_held: Vec<usize> = h.held.iter().map(|x| x.b.frame).collect();
                for f in frames_held {
                    if rng.below(100) < p {
                        let slot = if rng.chance(1, 2) { Some(0) } else { None };
                        h.exec(Op::Put { frame: f, order: 0, class: cls, slot });
                    }
                }
            }
            if !exhaust(&mut h, &mut rep, if boundary_round { "after freeing frames of one tree (the slot's reserved tree or another)" } else { "after freeing a random subset" }) {
                break;
            }
            let _ = round;
        }
        h.full_compare();
        rep.evaluations += 1;
        if rep.samples.len() < 3 {
            rep.samples.push(J::obj().with("frames", frames).with("calls", h.log.len()).with("rounds", rounds).with("tail_ops", J::Arr(h.log.iter().rev().take(8).map(|o| J::from(o.short())).collect())));
        }
        collect(&mut rep, "C11", &sc, &h);
    }
    rep.add("boundary_rounds", boundary);
    rep
}

// ---------------------------------------------------------------------------------------------
// C07

fn raw_exec<'a, A: Alloc<'a>>(a: &A, op: &Op, cfg: &Cfg, offset: usize) -> String {
    match op {
        Op::Get { order, class, slot } => {
            let r = catch(|| a.get(None, cfg.request(*order, *class, *slot)));
            format!("{:?}", r.map(|r| r.map(|(f, c)| (FrameId(f.0.wrapping_sub(offset)), c))))
        }
        Op::GetAt { frame, order, class, slot } => {
            let r = catch(|| a.get(Some(FrameId(frame + offset)), cfg.request(*order, *class, *slot)));
            format!("{:?}", r.map(|r| r.map(|(f, c)| (FrameId(f.0.wrapping_sub(offset)), c))))
        }
        Op::Put { frame, order, class, slot } => format!("{:?}", catch(|| a.put(FrameId(frame + offset), cfg.request(*order, *class, *slot)))),
        Op::Drain => format!("{:?}", catch(|| a.drain())),
        Op::Change { id, mclass, mfree, nclass, op } => {
            let matcher = TreeMatch { id: id.map(TreeId), class: mclass.map(Class), free: *mfree };
            let change = TreeChange {
                class: nclass.map(Class),
                operation: match op {
                    1 => Some(TreeOperation::Online),
                    2 => Some(TreeOperation::Offline),
                    _ => None,
                },
            };
            format!("{:?}", catch(|| a.change_tree(matcher, change)))
        }
        Op::Reinit(_) => String::new(),
    }
}

/// Everything observable through queries, as one string
fn observe<'a, A: Alloc<'a>>(a: &A, frames: usize, offset: usize) -> String {
    let mut s = format!("{:?}|{:?}|", a.stats(), a.tree_stats());
    let mut acc = 0u64;
    for f in 0..frames {
        acc = (acc << 1) | (a.stats_at(FrameId(f + offset), 0).free_frames as u64 & 1);
        if f % 64 == 63 {
            s.push_str(&format!("{acc:x},"));
            acc = 0;
        }
    }
    s.push_str(&format!("{acc:x}|"));
    for h in 0..frames.div_ceil(HUGE_FRAMES) {
        s.push_str(&format!("{:?}", a.stats_at(FrameId(h * HUGE_FRAMES + offset), HUGE_ORDER).free_frames));
        s.push(',');
    }
    for t in 0..frames.div_ceil(TREE_FRAMES) {
        s.push_str(&format!("{:?}", a.stats_at(FrameId(t * TREE_FRAMES + offset), TREE_ORDER)));
    }
    s
}

fn observe_trees(a: &LLFree, trees: usize) -> String {
    (0..trees).map(|t| format!("{:?}", a.trees.stats_at(TreeId(t)))).collect::<Vec<_>>().join(",")
}

pub fn run_handoff(args: &Args) -> Report {
    let mut rep = Report::new("C07", "handoff");
    let deadline = Instant::now() + Duration::from_millis(args.budget_ms);
    let mut master = Rng::new(args.seed.wrapping_mul(17).wrapping_add(args.shard as u64));
    let mut i = 0u64;
    let mut handoffs = 0u64;
    let mut with_res = 0u64;
    let mut reuses = 0u64;
    while Instant::now() < deadline {
        i += 1;
        let mut rng = master.fork(i);
        let hseed = rng.next();
        let frames = frame_counts(&mut rng, 3, false);
        let cfg = cfgs_for("C07", &mut rng);
        let init = if rng.chance(1, 4) { Init::AllocAll } else { Init::FreeAll };
        let sc = Scenario { frames, init, cfg: cfg.clone(), place: default_place(hseed) };
        let Ok(mut h) = Hist::start(frames, init, &cfg, sc.place, hseed, Opts { compare_every: 16, ..Opts::default() }) else {
            continue;
        };
        h.record_raw = true;
        let mut g = Gen::new(hseed, *rng.pick(&[Emph::Counters, Emph::Trees, Emph::Drains, Emph::Frees]));
        let prefix = rng.range(0, 200);
        for _ in 0..prefix {
            if h.dead {
                break;
            }
            let op = g.next(&h);
            h.exec(op);
        }
        if h.dead {
            collect(&mut rep, "C07", &sc, &h);
            continue;
        }
        // ---- variant (every third hand-off): the original itself is rebuilt from the buffers its own
        //      `metadata()` returns ("metadata buffers returned for reuse"): they must be exactly the caller's
        //      buffers, and the rebuilt allocator must be indistinguishable (it then plays the "original" in
        //      the lock-step below, against the byte copy taken before)
        let reuse = rng.chance(1, 3);
        let before_reuse = if reuse { Some(observe(h.sut.a(), frames, 0) + &observe_trees(h.sut.a(), frames.div_ceil(TREE_FRAMES))) } else { None };
        // ---- hand-off: byte copies of the three buffers, assume-initialised construction
        let place = default_place(hseed >> 3);
        let copy = {
            let local = Buf::new(h.sut.local.len(), place, 0);
            let trees = Buf::new(h.sut.trees.len(), place, 0);
            let lower = Buf::new(h.sut.lower.len(), place, 0);
            local.copy_from(&h.sut.local.to_vec());
            trees.copy_from(&h.sut.trees.to_vec());
            lower.copy_from(&h.sut.lower.to_vec());
            let mut s = Sut { alloc: None, local, trees, lower, frames, cfg: cfg.clone(), place };
            match s.build(Init::None) {
                Ok(()) => Some(s),
                Err(e) => {
                    let msg = format!("LLFree::new(Init::None) over byte copies of a quiescent allocator's buffers failed: {e:?}");
                    let v = crate::oracle::viol(&["C07"], msg.clone());
                    rep.violation("C07", &msg, || replay_json("C07", &sc, &h.opts, &h.log, &v));
                    None
                }
            }
        };
        let Some(copy) = copy else { continue };
        if let Some(before) = before_reuse {
            let mut orig = h.sut.alloc.take().expect("allocator");
            let md = unsafe { orig.metadata() };
            let same = |s: &[u8], b: &Buf| s.as_ptr() as usize == b.addr() && s.len() == b.len();
            let mut bad: Option<String> = None;
            if !(same(md.local, &h.sut.local) && same(md.trees, &h.sut.trees) && same(md.lower, &h.sut.lower)) {
                bad = Some(format!(
                    "metadata() does not return the caller's buffers: local {:#x}+{} (given {:#x}+{}), trees {:#x}+{} (given {:#x}+{}), lower {:#x}+{} (given {:#x}+{})",
                    md.local.as_ptr() as usize, md.local.len(), h.sut.local.addr(), h.sut.local.len(),
                    md.trees.as_ptr() as usize, md.trees.len(), h.sut.trees.addr(), h.sut.trees.len(),
                    md.lower.as_ptr() as usize, md.lower.len(), h.sut.lower.addr(), h.sut.lower.len()
                ));
            }
            drop(orig);
            if bad.is_none() {
                let classing = cfg.classing();
                match catch(|| LLFree::new(frames, Init::None, &classing, md)) {
                    Ok(Ok(a2)) => {
                        h.sut.alloc = Some(a2);
                        let after = observe(h.sut.a(), frames, 0) + &observe_trees(h.sut.a(), frames.div_ceil(TREE_FRAMES));
                        if after != before {
                            bad = Some("the allocator rebuilt (Init::None) from the buffers returned by metadata() reports different statistics than before".into());
                        }
                    }
                    r => bad = Some(format!("LLFree::new(Init::None) over the buffers returned by metadata() -> {:?}", r.map(|r| r.map(|_| ())))),
                }
            }
            reuses += 1;
            if let Some(msg) = bad {
                let v = crate::oracle::viol(&["C07"], msg.clone());
                rep.violation("C07", &msg, || replay_json("C07", &sc, &h.opts, &h.log, &v).with("handoff_after", prefix));
                continue;
            }
        }
        handoffs += 1;
        let ntrees = frames.div_ceil(TREE_FRAMES);
        if (0..ntrees).any(|t| h.sut.a().trees.stats_at(TreeId(t)).2) {
            with_res += 1;
        }
        let mut fail = |rep: &mut Report, h: &Hist, msg: String| {
            let v = crate::oracle::viol(&["C07"], msg.clone());
            rep.violation("C07", &msg, || replay_json("C07", &sc, &h.opts, &h.log, &v).with("handoff_after", prefix));
        };
        let o1 = observe(h.sut.a(), frames, 0) + &observe_trees(h.sut.a(), ntrees);
        let o2 = observe(copy.a(), frames, 0) + &observe_trees(copy.a(), ntrees);
        if o1 != o2 {
            fail(&mut rep, &h, format!("right after the hand-off (after {prefix} calls) the copy reports different statistics: original `{}` copy `{}`", &o1[..o1.len().min(300)], &o2[..o2.len().min(300)]));
            continue;
        }
        // ---- identical continuation on both
        let cont = rng.range(50, 200);
        for k in 0..cont {
            if h.dead {
                break;
            }
            let op = g.next(&h);
            let r2 = raw_exec(copy.a(), &op, &cfg, 0);
            h.exec(op.clone());
            if h.last_raw != r2 {
                fail(&mut rep, &h, format!("continuation call {k} {}: original returns {} but the copy returns {r2}", op.short(), h.last_raw));
                break;
            }
            if k % 8 == 0 || k + 1 == cont {
                let o1 = observe(h.sut.a(), frames, 0) + &observe_trees(h.sut.a(), ntrees);
                let o2 = observe(copy.a(), frames, 0) + &observe_trees(copy.a(), ntrees);
                if o1 != o2 {
                    fail(&mut rep, &h, format!("after continuation call {k} {} the copy's statistics differ from the original's", op.short()));
                    break;
                }
            }
        }
        rep.evaluations += 1;
        if rep.samples.len() < 3 {
            rep.samples.push(J::obj().with("frames", frames).with("cfg", cfg.name).with("handoff_after_calls", prefix).with("continuation_calls", cont));
        }
        collect(&mut rep, "C07", &sc, &h);
    }
    rep.add("handoffs", handoffs);
    rep.add("handoffs_with_reserved_trees", with_res);
    rep.add("rebuilds_from_metadata()", reuses);
    rep
}

// ---------------------------------------------------------------------------------------------
// C08

fn c08_probe_ops(h: &Hist, rng: &mut Rng) -> Vec<Op> {
    let frames = h.model.frames;
    let mut ops = Vec::new();
    let classes: Vec<u8> = (0..8).collect();
    let ok_class = h.cfg().classes[0].0;
    let slot_of = |c: u8| h.cfg().slot_count(c).filter(|n| *n > 0).map(|_| 0usize);
    for order in 0..=TREE_ORDER + 3 {
        let n = 1usize << order;
        let mut fs: BTreeSet<usize> = BTreeSet::new();
        fs.insert(0);
        if frames >= n {
            fs.insert((frames / n - 1) * n); // last aligned block
        }
        fs.insert(frames); // range end
        fs.insert(frames.saturating_sub(1));
        fs.insert(frames / n * n); // first aligned block past / at the end
        fs.insert(frames.next_multiple_of(n));
        if order <= 6 {
            for mis in 1..n {
                fs.insert(mis);
                fs.insert((frames / n).saturating_sub(1) * n + mis);
            }
        } else {
            for _ in 0..6 {
                fs.insert(rng.below(frames.max(1)) | 1);
                fs.insert((rng.below((frames / n).max(1)) * n) + (1 << rng.below(order)));
            }
        }
        for f in fs {
            ops.push(Op::GetAt { frame: f, order, class: ok_class, slot: slot_of(ok_class) });
            ops.push(Op::Put { frame: f, order, class: ok_class, slot: None });
        }
        ops.push(Op::Get { order, class: ok_class, slot: slot_of(ok_class) });
        ops.push(Op::Get { order, class: ok_class, slot: None });
    }
    for &c in &classes {
        let configured = h.cfg().configured(c);
        // unconfigured classes carry no slot (a slot index is only meaningful for a configured class)
        let slot = if configured { slot_of(c) } else { None };
        ops.push(Op::Get { order: 0, class: c, slot });
        ops.push(Op::GetAt { frame: 0, order: 0, class: c, slot });
        ops.push(Op::Put { frame: 0, order: 0, class: c, slot });
        ops.push(Op::Get { order: HUGE_ORDER.min(TREE_ORDER), class: c, slot });
    }
    ops
}

/// Construction with invalid metadata buffers must return Err(Initialization)
pub fn c08_buffers(rep: &mut Report, rng: &mut Rng, place: Place) -> u64 {
    let cfg = Cfg::by_name(*rng.pick(&["simple", "movable", "zeroslot"]), rng.range(1, 3));
    let frames = frame_counts(rng, 3, true).max(1);
    let classing = cfg.classing();
    let ms = LLFree::metadata_size(&classing, frames);
    let (l, t, w) = (ms.local, ms.trees, ms.lower);
    // one arena, slices carved out at chosen offsets
    let pad = 256usize;
    let arena = Buf::new(l + t + w + 8 * pad, place, 0);
    let base = arena.ptr();
    let sl = |off: usize, len: usize| -> &'static mut [u8] { unsafe { std::slice::from_raw_parts_mut(base.add(off), len) } };
    let lo = 0usize;
    let to = (l + pad).next_multiple_of(64);
    let wo = (to + t + pad).next_multiple_of(64);
    let mut n = 0u64;
    let mut try_new = |rep: &mut Report, what: &str, local: (usize, usize), trees: (usize, usize), lower: (usize, usize), expect_ok: bool| {
        n += 1;
        let meta = MetaData { local: sl(local.0, local.1), trees: sl(trees.0, trees.1), lower: sl(lower.0, lower.1) };
        let r = catch(|| LLFree::new(frames, Init::FreeAll, &classing, meta).map(|a| a.frames()));
        let ok = match (&r, expect_ok) {
            (Ok(Ok(f)), true) => *f == frames,
            (Ok(Err(Error::Initialization)), false) => true,
            _ => false,
        };
        if !ok {
            let msg = format!(
                "LLFree::new(frames={frames}, cfg={}) with {what}: got {r:?}, expected {}",
                cfg.name,
                if expect_ok { "Ok" } else { "Err(Initialization)" }
            );
            rep.violation("C08", &msg, || simple_replay("invalid", "C08", &msg, J::obj().with("frames", frames).with("what", what)));
        }
    };
    try_new(rep, "valid, well separated buffers", (lo, l), (to, t), (wo, w), true);
    // (an empty local buffer is placed after the others: whether an empty slice at the start of another
    // buffer "overlaps" it is not something the property decides)
    try_new(rep, "valid, exactly adjacent buffers", if l > 0 { (0, l) } else { (t + w + 128, 0) }, (l, t), (l + t, w), true);
    if l > 0 {
        try_new(rep, "local buffer one byte short", (lo, l - 1), (to, t), (wo, w), false);
    }
    if t > 0 {
        try_new(rep, "trees buffer one byte short", (lo, l), (to, t - 1), (wo, w), false);
    }
    if w > 0 {
        try_new(rep, "lower buffer one byte short", (lo, l), (to, t), (wo, w - 1), false);
    }
    for k in [1usize, 2, 3, 7, 8, 16, 31, 32, 33, 63] {
        let k2 = (k * 5 + rng.below(64)) % 63 + 1;
        for kk in [k, k2] {
            if l > 0 {
                try_new(rep, &format!("local buffer misaligned by {kk}"), (lo + kk, l), (to, t), (wo, w), false);
            }
            try_new(rep, &format!("trees buffer misaligned by {kk}"), (lo, l), (to + kk, t), (wo, w), false);
            try_new(rep, &format!("lower buffer misaligned by {kk}"), (lo, l), (to, t), (wo + kk, w), false);
        }
    }
    // overlaps (all buffers non-empty here: frames >= 1 gives trees and lower >= 64 bytes)
    try_new(rep, "trees and lower fully overlapping", (lo, l), (to, t), (to, w), false);
    try_new(rep, "trees extends one byte into lower", (lo, l), (to, wo - to + 1), (wo, w), false);
    try_new(rep, "lower starts inside trees", (lo, l), (to, t + 64), (to + t.saturating_sub(64).next_multiple_of(64).min(t), w), false);
    // every memory order of the three buffers: exact sizes (valid), the earlier buffer reaching exactly one
    // byte into the next one, and the earlier buffer containing the next one entirely
    let mut extra = 0u64;
    {
        let step = (l.max(t).max(w) + pad).next_multiple_of(64);
        let big = Buf::new(3 * step + 4 * pad, place, 0);
        let bbase = big.ptr();
        let bsl = |off: usize, len: usize| -> &'static mut [u8] { unsafe { std::slice::from_raw_parts_mut(bbase.add(off), len) } };
        let lens = [l, t, w];
        let names = ["local", "trees", "lower"];
        let perms: [[usize; 3]; 6] = [[0, 1, 2], [0, 2, 1], [1, 0, 2], [1, 2, 0], [2, 0, 1], [2, 1, 0]];
        for perm in perms {
            // perm[slot] = which buffer lies in that slot
            let place_of = |b: usize| perm.iter().position(|x| *x == b).unwrap() * step;
            for case in 0..5usize {
                // case 0: valid; 1/2: slot 0/1 reaches one byte into the next slot; 3/4: slot 0/1 contains the next buffer
                let mut rng_len = [l, t, w];
                let (slot, contain) = match case {
                    0 => (usize::MAX, false),
                    1 => (0, false),
                    2 => (1, false),
                    3 => (0, true),
                    _ => (1, true),
                };
                if slot != usize::MAX {
                    let (a, b) = (perm[slot], perm[slot + 1]);
                    if lens[a] == 0 || lens[b] == 0 {
                        continue;
                    }
                    rng_len[a] = if contain { step + lens[b] + 64 } else { step + 1 };
                }
                let what = match case {
                    0 => format!("valid buffers in memory order {}<{}<{}", names[perm[0]], names[perm[1]], names[perm[2]]),
                    _ => format!(
                        "memory order {}<{}<{}: {} {} {}",
                        names[perm[0]], names[perm[1]], names[perm[2]], names[perm[slot]],
                        if contain { "contains" } else { "reaches exactly one byte into" }, names[perm[slot + 1]]
                    ),
                };
                let inits: &[Init] = if case == 0 { &[Init::FreeAll, Init::AllocAll] } else { &[Init::FreeAll, Init::AllocAll, Init::Recover, Init::None] };
                let init = inits[(extra as usize) % inits.len()];
                extra += 1;
                let meta = MetaData { local: bsl(place_of(0), rng_len[0]), trees: bsl(place_of(1), rng_len[1]), lower: bsl(place_of(2), rng_len[2]) };
                let r = catch(|| LLFree::new(frames, init, &classing, meta).map(|a| a.frames()));
                let ok = match (&r, case == 0) {
                    (Ok(Ok(f)), true) => *f == frames,
                    (Ok(Err(Error::Initialization)), false) => true,
                    _ => false,
                };
                if !ok {
                    let msg = format!(
                        "LLFree::new(frames={frames}, {}, cfg={}) with {what}: got {r:?}, expected {}",
                        crate::sut::init_name(init), cfg.name, if case == 0 { "Ok" } else { "Err(Initialization)" }
                    );
                    rep.violation("C08", &msg, || simple_replay("invalid", "C08", &msg, J::obj().with("frames", frames).with("what", what.as_str())));
                }
            }
        }
        // short / misaligned buffers are rejected in every initialisation mode
        for (k, init) in [Init::AllocAll, Init::Recover, Init::None].into_iter().enumerate() {
            extra += 1;
            let (mut ll, mut tl, mut wl) = (l, t, w);
            let (mut lo2, mut to2, mut wo2) = (0usize, step, 2 * step);
            let what = match (extra as usize + k) % 4 {
                0 if w > 0 => { wl -= 1; "lower buffer one byte short" }
                1 if t > 0 => { tl -= 1; "trees buffer one byte short" }
                2 => { wo2 += 8; "lower buffer misaligned by 8" }
                _ if l > 0 => { lo2 += 32; "local buffer misaligned by 32" }
                _ => { to2 += 16; "trees buffer misaligned by 16" }
            };
            let meta = MetaData { local: bsl(lo2, ll), trees: bsl(to2, tl), lower: bsl(wo2, wl) };
            let r = catch(|| LLFree::new(frames, init, &classing, meta).map(|a| a.frames()));
            if !matches!(r, Ok(Err(Error::Initialization))) {
                let msg = format!("LLFree::new(frames={frames}, {}, cfg={}) with {what}: got {r:?}, expected Err(Initialization)", crate::sut::init_name(init), cfg.name);
                rep.violation("C08", &msg, || simple_replay("invalid", "C08", &msg, J::obj().with("frames", frames).with("what", what)));
            }
            let _ = (&mut ll, &mut tl, &mut wl);
        }
    }
    if l > 0 {
        try_new(rep, "local and trees fully overlapping", (to, l), (to, t), (wo, w), false);
        try_new(rep, "local extends one byte into trees", (lo, to - lo + 1), (to, t), (wo, w), false);
        try_new(rep, "lower and local fully overlapping", (wo, l), (to, t), (wo, w), false);
        try_new(rep, "local inside lower", (wo + (w / 2) / 64 * 64, l.min(w / 2)), (to, t), (wo, w), l.min(w / 2) < l && false);
    }
    n + extra
}

pub fn run_invalid(args: &Args) -> Report {
    let mut rep = Report::new("C08", "invalid");
    let deadline = Instant::now() + Duration::from_millis(args.budget_ms);
    let mut master = Rng::new(args.seed.wrapping_mul(19).wrapping_add(args.shard as u64));
    let mut i = 0u64;
    let mut probes = 0u64;
    let mut rejected = 0u64;
    let mut bufcases = 0u64;
    let mut zone = 0u64;
    while Instant::now() < deadline {
        i += 1;
        let mut rng = master.fork(i);
        let hseed = rng.next();
        // ---- invalid requests on fresh states and on states reached by random histories
        let frames = frame_counts(&mut rng, 3, true).max(1);
        let n_classes = rng.range(1, 4);
        let mut cfg = match n_classes {
            1 => Cfg::single(),
            2 => Cfg::simple(rng.range(1, 3)),
            _ => Cfg::movable(rng.range(1, 3)),
        };
        if rng.chance(1, 4) {
            // non-contiguous class ids
            cfg = Cfg { name: "sparse", classes: vec![(1, 1), (4, 1)], default: 4, policy: cfg.policy, never_invalid: true };
        }
        let init = if rng.chance(1, 4) { Init::AllocAll } else { Init::FreeAll };
        let sc = Scenario { frames, init, cfg: cfg.clone(), place: default_place(hseed) };
        if cfg.name != "sparse" {
            if let Ok(mut h) = Hist::start(frames, init, &cfg, sc.place, hseed, Opts::default()) {
                let mut g = Gen::new(hseed, Emph::Frees);
                for _ in 0..rng.below(120) {
                    if h.dead {
                        break;
                    }
                    let op = g.next(&h);
                    h.exec(op);
                }
                let ops = c08_probe_ops(&h, &mut rng);
                let e0 = h.st.err_arg;
                for op in ops {
                    if h.dead {
                        break;
                    }
                    probes += 1;
                    h.exec(op);
                }
                rejected += h.st.err_arg - e0;
                rep.evaluations += 1;
                if rep.samples.len() < 2 {
                    rep.samples.push(J::obj().with("frames", frames).with("cfg", cfg.name).with("probe_tail", J::Arr(h.log.iter().rev().take(10).map(|o| J::from(o.short())).collect())));
                }
                collect(&mut rep, "C08", &sc, &h);
            }
        } else {
            // sparse class ids: direct probes (the history generator assumes dense ids)
            if let Ok(s) = Sut::new(frames, init, &cfg, sc.place) {
                let a = s.a();
                for c in 0..8u8 {
                    let before = observe(a, frames, 0);
                    let r1 = catch(|| a.get(None, cfg.request(0, c, None)));
                    let r2 = catch(|| a.put(FrameId(0), cfg.request(0, c, None)));
                    probes += 2;
                    if !cfg.configured(c) {
                        for (what, bad) in [("get", !matches!(r1, Ok(Err(Error::Argument)))), ("put", !matches!(r2, Ok(Err(Error::Argument))))] {
                            if bad {
                                let msg = format!("classes {:?}: {what} with unconfigured class {c} -> get {r1:?} / put {r2:?}, expected Err(Argument)", cfg.classes);
                                rep.violation("C08", &msg, || simple_replay("invalid", "C08", &msg, J::obj().with("frames", frames)));
                            }
                        }
                        rejected += 2;
                        if observe(a, frames, 0) != before {
                            let msg = format!("classes {:?}: rejected request with class {c} changed the state", cfg.classes);
                            rep.violation("C08", &msg, || simple_replay("invalid", "C08", &msg, J::obj().with("frames", frames)));
                        }
                    } else if let Ok(Ok((f, _))) = r1 {
                        let _ = a.put(f, cfg.request(0, c, None));
                    }
                }
                rep.evaluations += 1;
            }
        }
        // ---- invalid metadata buffers
        bufcases += c08_buffers(&mut rep, &mut rng, if cfg!(miri) { Place::Heap } else { default_place(hseed >> 1) });
        // ---- zone wrapper: frames below the offset
        if let Some(n) = c08_zone(&mut rep, &mut rng, default_place(hseed >> 2)) {
            zone += n;
        }
    }
    rep.add("invalid_or_boundary_requests", probes);
    rep.add("requests_rejected_with_argument", rejected);
    rep.add("buffer_constructions", bufcases);
    rep.add("zone_below_offset_probes", zone);
    rep
}

fn c08_zone(rep: &mut Report, rng: &mut Rng, place: Place) -> Option<u64> {
    let cfg = Cfg::simple(1);
    let classing = cfg.classing();
    let frames = frame_counts(rng, 2, false).max(1);
    let offset = rng.range(1, 5) * TREE_FRAMES;
    let ms = LLFree::metadata_size(&classing, frames);
    let (local, trees, lower) = (Buf::new(ms.local, place, 0), Buf::new(ms.trees, place, 0xA5), Buf::new(ms.lower, place, 0xA5));
    let meta = unsafe { MetaData { local: local.slice(), trees: trees.slice(), lower: lower.slice() } };
    let z = ZoneAlloc::<LLFree>::create(offset, frames, Init::FreeAll, &classing, meta).ok()?;
    // a few valid allocations first
    for _ in 0..rng.below(20) {
        let _ = z.get(None, cfg.request(0, 0, Some(0)));
    }
    let before = observe(&z, frames, offset);
    let mut n = 0;
    let mut probes: Vec<usize> = vec![0, 1, offset - 1, offset / 2, offset - TREE_FRAMES];
    probes.push(rng.below(offset));
    for f in probes {
        for order in [0usize, 3, HUGE_ORDER.min(TREE_ORDER)] {
            n += 2;
            let r1 = catch(|| z.get(Some(FrameId(f)), cfg.request(order, 0, None)));
            let r2 = catch(|| z.put(FrameId(f), cfg.request(order, 0, None)));
            if !matches!(r1, Ok(Err(Error::Argument))) || !matches!(r2, Ok(Err(Error::Argument))) {
                let msg = format!("ZoneAlloc(offset {offset}, frames {frames}): frame {f} below the offset, order {order}: get -> {r1:?}, put -> {r2:?}, expected Err(Argument)");
                rep.violation("C08", &msg, || simple_replay("invalid", "C08", &msg, J::obj().with("frames", frames).with("offset", offset)));
            }
        }
    }
    if observe(&z, frames, offset) != before {
        let msg = format!("ZoneAlloc(offset {offset}, frames {frames}): rejected requests below the offset changed the state");
        rep.violation("C08", &msg, || simple_replay("invalid", "C08", &msg, J::obj().with("frames", frames).with("offset", offset)));
    }
    // a misaligned zone offset is an initialisation error
    let meta = unsafe { MetaData { local: local.slice(), trees: trees.slice(), lower: lower.slice() } };
    drop(z);
    let bad = offset + 1 + rng.below(TREE_FRAMES - 1);
    match ZoneAlloc::<LLFree>::create(bad, frames, Init::FreeAll, &classing, meta) {
        Err(Error::Initialization) => {}
        r => {
            let msg = format!("ZoneAlloc::create with offset {bad} (not a multiple of the tree size) -> {:?}", r.map(|_| ()));
            rep.violation("C08", &msg, || simple_replay("invalid", "C08", &msg, J::obj().with("offset", bad)));
        }
    }
    Some(n)
}

// ---------------------------------------------------------------------------------------------
// C17

pub fn run_wrappers(args: &Args) -> Report {
    let mut rep = Report::new("C17", "wrappers");
    let deadline = Instant::now() + Duration::from_millis(args.budget_ms);
    let mut master = Rng::new(args.seed.wrapping_mul(23).wrapping_add(args.shard as u64));
    let mut i = 0u64;
    let mut zone_runs = 0u64;
    let mut nvm_runs = 0u64;
    let mut transplants = 0u64;
    let mut nvm_frames_checked = 0u64;
    let mut recovers = 0u64;
    let mut refused = 0u64;
    while Instant::now() < deadline {
        i += 1;
        let mut rng = master.fork(i);
        let hseed = rng.next();
        // ---- ZoneAlloc in lock-step with an identical plain allocator
        {
            let frames = frame_counts(&mut rng, 3, false).max(1);
            let cfg = cfgs_for("C17", &mut rng);
            let classing = cfg.classing();
            let offset = rng.range(0, 6) * TREE_FRAMES;
            let place = default_place(hseed);
            let ms = LLFree::metadata_size(&classing, frames);
            let (local, trees, lower) = (Buf::new(ms.local, place, 0), Buf::new(ms.trees, place, 0xA5), Buf::new(ms.lower, place, 0xA5));
            let meta = unsafe { MetaData { local: local.slice(), trees: trees.slice(), lower: lower.slice() } };
            let init = if rng.chance(1, 4) { Init::AllocAll } else { Init::FreeAll };
            let sc = Scenario { frames, init, cfg: cfg.clone(), place };
            if let (Ok(z), Ok(mut h)) = (ZoneAlloc::<LLFree>::create(offset, frames, init, &classing, meta), Hist::start(frames, init, &cfg, place, hseed, Opts { compare_every: 8, ..Opts::default() })) {
                h.record_raw = true;
                // no tree changes: ZoneAlloc does not forward change_tree (trait default), not part of the statement
                let mut g = Gen::new(hseed, Emph::Frees);
                let len = rng.range(30, 250);
                for k in 0..len {
                    if h.dead {
                        break;
                    }
                    let mut op = g.next(&h);
                    if matches!(op, Op::Change { .. } | Op::Reinit(_)) {
                        op = Op::Drain;
                    }
                    let rz = raw_exec(&z, &op, &cfg, offset);
                    h.exec(op.clone());
                    let mut bad = None;
                    if h.last_raw != rz {
                        bad = Some(format!("call {k} {}: inner allocator returns {} but ZoneAlloc(offset {offset}) returns {rz} (frames shown minus offset)", op.short(), h.last_raw));
                    } else if k % 8 == 0 || k + 1 == len {
                        let o1 = observe(h.sut.a(), frames, 0);
                        let o2 = observe(&z, frames, offset);
                        if o1 != o2 {
                            bad = Some(format!("after call {k} {} the queries through ZoneAlloc(offset {offset}) differ from the inner allocator's", op.short()));
                        }
                    }
                    if let Some(msg) = bad {
                        let v = crate::oracle::viol(&["C17"], msg.clone());
                        rep.violation("C17", &msg, || replay_json("C17", &sc, &h.opts, &h.log, &v).with("zone_offset", offset));
                        break;
                    }
                }
                // frames below the offset are rejected
                if offset > 0 {
                    let f = rng.below(offset);
                    let r1 = z.get(Some(FrameId(f)), cfg.request(0, cfg.classes[0].0, None));
                    let r2 = z.put(FrameId(f), cfg.request(0, cfg.classes[0].0, None));
                    if r1.is_ok() || r2.is_ok() || z.stats_at(FrameId(f), 0).free_frames != 0 {
                        let msg = format!("ZoneAlloc(offset {offset}): frame {f} below the offset accepted: get {r1:?} put {r2:?}");
                        rep.violation("C17", &msg, || simple_replay("wrappers", "C17", &msg, J::obj().with("offset", offset)));
                    }
                }
                zone_runs += 1;
                rep.evaluations += 1;
                collect(&mut rep, "C17", &sc, &h);
            }
        }
        // ---- NvmAlloc on a real zone (not under Miri: needs a large aligned mapping)
        #[cfg(not(miri))]
        {
            let r = catch(|| nvm_case(&mut rep, &mut rng));
            match r {
                Ok(Some((n, rec, refu))) => {
                    nvm_runs += 1;
                    nvm_frames_checked += n;
                    recovers += rec;
                    refused += refu;
                    rep.evaluations += 1;
                }
                Ok(None) => {}
                Err(p) => {
                    let msg = format!("persistent wrapper scenario panicked: {p}");
                    rep.violation("C17", &msg, || simple_replay("wrappers", "C17", &msg, J::obj()));
                }
            }
            // the persistent tail of an instance transplanted to the end of regions of other lengths
            if rng.chance(1, 2) {
                match catch(|| nvm_transplant(&mut rep, &mut rng)) {
                    Ok((refu, rec)) => {
                        refused += refu;
                        recovers += rec;
                        transplants += refu + rec;
                        rep.evaluations += 1;
                    }
                    Err(p) => {
                        let msg = format!("persistent wrapper transplant scenario panicked: {p}");
                        rep.violation("C17", &msg, || simple_replay("wrappers", "C17", &msg, J::obj()));
                    }
                }
            }
        }
    }
    rep.add("nvm_tail_transplants", transplants);
    rep.add("zone_lockstep_runs", zone_runs);
    rep.add("nvm_zones", nvm_runs);
    rep.add("nvm_frames_checked_against_metadata_range", nvm_frames_checked);
    rep.add("nvm_recoveries_compared", recovers);
    rep.add("nvm_recoveries_refused_as_expected", refused);
    rep.samples.push(J::obj().with("zone", "ZoneAlloc vs identical inner allocator in lock-step (results minus offset, all queries)").with("nvm", "create, exhaust, check every frame against the metadata/header address range, random history, recover, compare per-frame state; recover of untouched / differently sized / misaligned regions"));
    rep
}

#[cfg(not(miri))]
struct ZoneMem {
    base: *mut u8,
    len: usize,
    zone: *mut Frame,
}
#[cfg(not(miri))]
impl ZoneMem {
    /// `frames` frames at an address aligned to the tree size, `skew` trees above the first aligned address
    fn new(frames: usize, skew: usize) -> ZoneMem {
        let align = Frame::SIZE << TREE_ORDER;
        let len = frames * Frame::SIZE + align * (skew + 2);
        let base = unsafe { libc::mmap(std::ptr::null_mut(), len, libc::PROT_READ | libc::PROT_WRITE, libc::MAP_PRIVATE | libc::MAP_ANONYMOUS | libc::MAP_NORESERVE, -1, 0) };
        assert!(base != libc::MAP_FAILED);
        let base = base as *mut u8;
        let start = (base as usize).next_multiple_of(align) + skew * align;
        ZoneMem { base, len, zone: start as *mut Frame }
    }
    fn slice(&self, frames: usize, skew_frames: usize) -> &'static mut [Frame] {
        unsafe { std::slice::from_raw_parts_mut(self.zone.add(skew_frames), frames) }
    }
}
#[cfg(not(miri))]
impl Drop for ZoneMem {
    fn drop(&mut self) {
        unsafe { libc::munmap(self.base as *mut _, self.len) };
    }
}

/// Region lengths at which the number of persistent metadata pages changes (T and T+1 differ)
#[cfg(not(miri))]
fn nvm_page_boundaries(classing: &llfree::Classing, max: usize) -> Vec<usize> {
    let pages = |t: usize| LLFree::metadata_size(classing, t).lower.div_ceil(Frame::SIZE);
    let mut out = Vec::new();
    let mut prev = pages(8);
    for t in 9..=max {
        let p = pages(t);
        if p != prev {
            out.push(t - 1);
        }
        prev = p;
    }
    out
}

/// An instance is created in a region of `t` frames and used; its persistent tail (metadata pages +
/// header page) is then copied to the end of regions of other lengths (all tree-aligned): recovery
/// there must be refused ("no instance of the same size"); copied to the end of another region of
/// the same length it must be recovered with the same allocation state.
/// returns (refusals observed, recoveries compared)
#[cfg(not(miri))]
fn nvm_transplant(rep: &mut Report, rng: &mut Rng) -> (u64, u64) {
    type N = NvmAlloc<'static, LLFree<'static>>;
    let cfg = Cfg::simple(1);
    let classing = cfg.classing();
    let max = if cfg!(feature = "16K") { 40_000 } else { 140_000 };
    static BOUNDS: std::sync::OnceLock<Vec<usize>> = std::sync::OnceLock::new();
    let bounds = BOUNDS.get_or_init(|| nvm_page_boundaries(&classing, max));
    let t = if !bounds.is_empty() && rng.chance(3, 4) {
        // at, just below or just above a page-count boundary
        (*rng.pick(bounds) + rng.below(3)).saturating_sub(1).max(16)
    } else {
        rng.range(16, 4 * TREE_FRAMES)
    };
    let place = Place::End;
    let bufs = |frames: usize| {
        let ms = LLFree::metadata_size(&classing, frames);
        (Buf::new(ms.local, place, 0), Buf::new(ms.trees, place, 0xA5))
    };
    let fail = |rep: &mut Report, msg: String| {
        let m2 = format!("NvmAlloc instance of {t} frames: {msg}");
        rep.violation("C17", &m2, || simple_replay("wrappers", "C17", &m2, J::obj().with("zone_frames", t)));
    };
    let mem = ZoneMem::new(t + 8, 0);
    let (l, tr) = bufs(t);
    let nv = match N::create(mem.slice(t, 0), false, &classing, unsafe { l.slice() }, unsafe { tr.slice() }) {
        Ok(n) => n,
        Err(_) => return (0, 0),
    };
    let offset = mem.zone as usize / Frame::SIZE;
    let managed = nv.frames();
    // use it: a few base frames, a huge frame, so that "everything free" is distinguishable
    let mut allocated = 0usize;
    for i in 0..rng.range(1, 40) {
        let order = if i % 7 == 3 && managed > 2 * HUGE_FRAMES { HUGE_ORDER } else { 0 };
        if nv.get(None, cfg.request(order, (order >= HUGE_ORDER) as u8, Some(0))).is_ok() {
            allocated += 1 << order;
        }
    }
    let status: Vec<bool> = (0..managed).map(|f| nv.stats_at(FrameId(f + offset), 0).free_frames == 0).collect();
    if status.iter().filter(|x| **x).count() != allocated {
        fail(rep, format!("{} frames reported allocated after allocating {allocated}", status.iter().filter(|x| **x).count()));
    }
    let tail_pages = LLFree::metadata_size(&classing, t).lower.div_ceil(Frame::SIZE) + 2;
    drop(nv);
    let tail = |m: &ZoneMem, frames: usize, n: usize| -> *mut u8 { unsafe { (m.zone as *mut u8).add((frames - n) * Frame::SIZE) } };
    let (mut refused, mut recovered) = (0u64, 0u64);
    let mut others: Vec<usize> = vec![t + 1, t + 2, t.saturating_sub(1), t.saturating_sub(2), t + HUGE_FRAMES, t + TREE_FRAMES, t];
    others.push(t + 1 + rng.below(64));
    for other in others {
        if other < tail_pages + 4 {
            continue;
        }
        let n = tail_pages.min(other).min(t);
        let m2 = ZoneMem::new(other + 8, rng.below(2));
        unsafe { std::ptr::copy_nonoverlapping(tail(&mem, t, n), tail(&m2, other, n), n * Frame::SIZE) };
        let (l2, t2) = bufs(other);
        let r = catch(|| N::create(m2.slice(other, 0), true, &classing, unsafe { l2.slice() }, unsafe { t2.slice() }));
        match r {
            Err(p) => fail(rep, format!("create(recover=true) on a region of {other} frames holding the persistent tail of this instance panicked: {p}")),
            Ok(Err(Error::Initialization)) if other != t => refused += 1,
            Ok(Ok(nv2)) if other == t => {
                let off2 = m2.zone as usize / Frame::SIZE;
                let st2: Vec<bool> = (0..nv2.frames().min(managed)).map(|f| nv2.stats_at(FrameId(f + off2), 0).free_frames == 0).collect();
                if nv2.frames() != managed || st2 != status {
                    fail(rep, format!("its persistent tail at the end of another region of the same length recovers with a different state (frames {} vs {managed})", nv2.frames()));
                }
                recovered += 1;
            }
            Ok(Ok(nv2)) => {
                fail(rep, format!(
                    "create(recover=true) on a region of {other} frames recovered this instance of {t} frames (recovered allocator: {} frames, {} free; the instance had {allocated} allocated)",
                    nv2.frames(), nv2.stats().free_frames
                ));
            }
            Ok(Err(e)) => fail(rep, format!("create(recover=true) on a region of {other} frames holding the tail of this instance -> Err({e:?}){}", if other == t { " (same length: must recover)" } else { "" })),
        }
    }
    (refused, recovered)
}

/// returns (frames checked, recoveries compared, refusals observed)
#[cfg(not(miri))]
fn nvm_case(rep: &mut Report, rng: &mut Rng) -> Option<(u64, u64, u64)> {
    type N = NvmAlloc<'static, LLFree<'static>>;
    let cfg = Cfg::simple(rng.range(1, 3));
    let classing = cfg.classing();
    // zone length in frames (including metadata + header pages): 1-3 trees plus odd remainders
    let max_trees = if cfg!(feature = "16K") || TREE_HUGE > 4 { 2 } else { 3 };
    let zlen = rng.range(1, max_trees + 1) * TREE_FRAMES
        - *rng.pick(&[0usize, 0, 1, 2, 3, 63, 64, 65, HUGE_FRAMES - 1, HUGE_FRAMES, HUGE_FRAMES + 1, TREE_FRAMES / 2 + 7]) % TREE_FRAMES;
    let zlen = zlen.max(4);
    let skew = rng.below(3);
    let mem = ZoneMem::new(zlen + 8, skew);
    let ms = LLFree::metadata_size(&classing, zlen);
    let place = Place::End;
    let mk = || (Buf::new(ms.local, place, 0), Buf::new(ms.trees, place, 0xA5));
    let fail = |rep: &mut Report, msg: String| {
        let m2 = format!("NvmAlloc zone of {zlen} frames: {msg}");
        rep.violation("C17", &m2, || simple_replay("wrappers", "C17", &m2, J::obj().with("zone_frames", zlen)));
    };
    let mut refused = 0u64;
    // recover of an untouched (zeroed) region must be refused
    {
        let (l, t) = mk();
        match N::create(mem.slice(zlen, 0), true, &classing, unsafe { l.slice() }, unsafe { t.slice() }) {
            Err(Error::Initialization) => refused += 1,
            r => fail(rep, format!("create(recover=true) on an untouched region -> {:?}", r.map(|_| ()))),
        }
    }
    // misaligned zone must be refused
    {
        let (l, t) = mk();
        match N::create(mem.slice(zlen, 1), false, &classing, unsafe { l.slice() }, unsafe { t.slice() }) {
            Err(Error::Initialization) => refused += 1,
            r => fail(rep, format!("create on a zone not aligned to the tree size -> {:?}", r.map(|_| ()))),
        }
    }
    let (l, t) = mk();
    let zone_start = mem.zone as usize;
    let zone_end = zone_start + zlen * Frame::SIZE;
    let mut nv = match N::create(mem.slice(zlen, 0), false, &classing, unsafe { l.slice() }, unsafe { t.slice() }) {
        Ok(n) => n,
        Err(e) => {
            // legitimately too small for its own metadata?
            if zlen * Frame::SIZE < ms.lower + Frame::SIZE {
                return None;
            }
            fail(rep, format!("create(recover=false) failed: {e:?}"));
            return None;
        }
    };
    // where the allocator really keeps its persistent metadata (independent of the wrapper's arithmetic)
    let meta = unsafe { nv.metadata() };
    let lower_lo = meta.lower.as_ptr() as usize;
    let header_lo = zone_end - Frame::SIZE;
    if lower_lo < zone_start || lower_lo + meta.lower.len() > header_lo {
        fail(rep, format!("lower metadata {lower_lo:#x}+{} is not inside the zone before the header page", meta.lower.len()));
    }
    let protected_lo = lower_lo / Frame::SIZE * Frame::SIZE;
    let offset = zone_start / Frame::SIZE;
    let managed = nv.frames();
    // exhaust at base order; every frame handed out must lie in the zone and below the metadata pages
    let mut held: Vec<usize> = Vec::new();
    let mut seen = BTreeSet::new();
    let req = cfg.request(0, 0, Some(0));
    loop {
        match nv.get(None, req) {
            Ok((f, _)) => {
                let lo = f.0 * Frame::SIZE;
                if lo < zone_start || lo + Frame::SIZE > protected_lo || !seen.insert(f.0) {
                    fail(rep, format!("get returned frame {:#x} (bytes {lo:#x}..) outside [zone start {zone_start:#x}, metadata pages {protected_lo:#x}) or twice; header page at {header_lo:#x}", f.0));
                    return None;
                }
                held.push(f.0);
            }
            Err(Error::Memory) => break,
            Err(e) => {
                fail(rep, format!("get failed with {e:?}"));
                return None;
            }
        }
        if held.len() > zlen {
            break;
        }
    }
    if held.len() != managed {
        fail(rep, format!("exhaustion handed out {} frames but frames() = {managed}", held.len()));
    }
    // a huge-order probe must stay below the metadata as well
    let checked = held.len() as u64;
    // random history: free a subset, allocate some back (mixed orders)
    rng.shuffle(&mut held);
    let keep = rng.below(held.len() + 1);
    let mut model = vec![true; managed];
    for f in held.drain(keep..) {
        if let Err(e) = nv.put(FrameId(f), cfg.request(0, 0, if rng.chance(1, 2) { Some(0) } else { None })) {
            fail(rep, format!("put of held frame {f:#x} failed: {e:?}"));
            return None;
        }
        model[f - offset] = false;
    }
    for _ in 0..rng.below(40) {
        let order = *rng.pick(&[0usize, 0, 3, 6, HUGE_ORDER.min(TREE_ORDER)]);
        if let Ok((f, _)) = nv.get(None, cfg.request(order, (order >= HUGE_ORDER) as u8, Some(0))) {
            let lo = f.0 * Frame::SIZE;
            if lo < zone_start || lo + (Frame::SIZE << order) > protected_lo {
                fail(rep, format!("get(order {order}) returned frame {:#x} overlapping the metadata/header pages", f.0));
                return None;
            }
            for x in f.0 - offset..f.0 - offset + (1 << order) {
                if model[x] {
                    fail(rep, format!("get(order {order}) returned allocated frame {:#x}", f.0));
                    return None;
                }
                model[x] = true;
            }
        }
    }
    let status_before: Vec<bool> = (0..managed).map(|f| nv.stats_at(FrameId(f + offset), 0).free_frames == 0).collect();
    if status_before != model {
        fail(rep, "per-frame status through the wrapper differs from the tracked allocation state".into());
    }
    drop(nv);
    // recover with fresh volatile buffers: same allocation state
    let mut recovered = 0u64;
    let (l2, t2) = mk();
    match catch(|| N::create(mem.slice(zlen, 0), true, &classing, unsafe { l2.slice() }, unsafe { t2.slice() })) {
        Ok(Ok(nv2)) => {
            let status: Vec<bool> = (0..managed).map(|f| nv2.stats_at(FrameId(f + offset), 0).free_frames == 0).collect();
            if nv2.frames() != managed || status != model {
                let d = (0..managed).find(|&f| status.get(f) != model.get(f));
                fail(rep, format!("recovered instance differs from the created one (frames {} vs {managed}, first differing frame {d:?})", nv2.frames()));
            }
            if nv2.stats().free_frames != nv2.tree_stats().free_frames {
                fail(rep, "recovered instance: fast and exact free counts differ".into());
            }
            // every held frame can be freed
            for f in (0..managed).filter(|&f| model[f]).take(200) {
                if nv2.stats_at(FrameId(f + offset), 0).free_frames == 0 && nv2.stats_at(FrameId(f + offset), HUGE_ORDER).free_frames == 0 && HUGE_FRAMES == 0 {
                    break;
                }
                let _ = f;
            }
            recovered = 1;
        }
        Ok(Err(e)) => fail(rep, format!("create(recover=true) on a region holding an instance of this size failed: {e:?}")),
        Err(p) => fail(rep, format!("create(recover=true) panicked: {p}")),
    }
    // a region created with another length must be refused
    if zlen > 8 {
        let other = zlen - 1 - rng.below(3);
        let ms2 = LLFree::metadata_size(&classing, other);
        let (l3, t3) = (Buf::new(ms2.local, place, 0), Buf::new(ms2.trees, place, 0xA5));
        match catch(|| N::create(mem.slice(other, 0), true, &classing, unsafe { l3.slice() }, unsafe { t3.slice() })) {
            Ok(Err(Error::Initialization)) => refused += 1,
            Ok(r) => fail(rep, format!("create(recover=true) with zone length {other} on a region created with length {zlen} -> {:?}", r.map(|_| ()))),
            Err(p) => fail(rep, format!("create(recover=true) with another zone length panicked: {p}")),
        }
    }
    // same end (header found) but another start: the recorded size does not match
    if zlen > TREE_FRAMES + 8 {
        let other = zlen - TREE_FRAMES;
        let ms2 = LLFree::metadata_size(&classing, other);
        let (l3, t3) = (Buf::new(ms2.local, place, 0), Buf::new(ms2.trees, place, 0xA5));
        match catch(|| N::create(mem.slice(other, TREE_FRAMES), true, &classing, unsafe { l3.slice() }, unsafe { t3.slice() })) {
            Ok(Err(Error::Initialization)) => refused += 1,
            Ok(r) => fail(rep, format!("create(recover=true) over the last {other} frames of a region created with {zlen} frames (same header page) -> {:?}", r.map(|_| ()))),
            Err(p) => fail(rep, format!("create(recover=true) with another zone start panicked: {p}")),
        }
    }
    Some((checked, recovered, refused))
}
