//! E1 seqmon: executes one sequential history against the real allocator and judges every call
//! with the frame-ownership model (C02, C04, C08, C09, C10, C13, C14, C15; crash points for C05).

use std::collections::BTreeSet;

use llfree::{
    Alloc, Class, Error, FrameId, Init, TREE_FRAMES, TREE_ORDER, TreeChange, TreeId, TreeMatch, TreeOperation,
};

use crate::bufs::{Place, catch};
use crate::cfgs::Cfg;
use crate::crash::{SnapSink, Tol, check_recovery};
use crate::hooks;
use crate::model::{Block, Model};
use crate::ops::Op;
use crate::oracle::{Viol, compare, compare_class_stats, viol};
use crate::rng::Rng;
use crate::sut::{NewErr, Sut};

#[derive(Clone, Copy, Debug)]
pub struct Held {
    pub b: Block,
    /// class reported by the allocator
    pub class: u8,
    /// class that was requested
    pub rclass: u8,
}

#[derive(Clone, Debug)]
pub struct Opts {
    /// full comparison after every n-th call (1 = every call)
    pub compare_every: usize,
    /// take crash snapshots at every persistent write and judge recovery (C05)
    pub crash: bool,
    /// check at most this many crash points per call (evenly sampled), 0 = all
    pub crash_cap: usize,
}
impl Default for Opts {
    fn default() -> Self {
        Opts { compare_every: 1, crash: false, crash_cap: 0 }
    }
}

#[derive(Default, Clone, Debug)]
pub struct HStats {
    pub calls: u64,
    pub ok: u64,
    pub err_mem: u64,
    pub err_arg: u64,
    pub panics: u64,
    pub crash_points: u64,
    pub crash_calls: u64,
    pub after_drain_probes: u64,
    pub missed_higher_order: u64,
    /// (kind, outcome, predicate) tuples observed
    pub tuples: BTreeSet<String>,
    pub states: BTreeSet<u64>,
}

pub struct Hist {
    pub sut: Sut,
    pub scratch: Option<Sut>,
    pub model: Model,
    pub held: Vec<Held>,
    pub freed: Vec<Block>,
    pub viols: Vec<Viol>,
    pub log: Vec<Op>,
    pub orng: Rng,
    pub after_drain: bool,
    pub dead: bool,
    pub opts: Opts,
    pub st: HStats,
    pub init: Init,
    /// result of the last call, formatted (for lock-step differentials)
    pub last_raw: String,
    pub record_raw: bool,
}

fn err_name(e: Error) -> &'static str {
    match e {
        Error::Memory => "Memory",
        Error::Argument => "Argument",
        Error::Initialization => "Initialization",
    }
}

impl Hist {
    /// Start a history from `Init::FreeAll` or `Init::AllocAll`.
    pub fn start(frames: usize, init: Init, cfg: &Cfg, place: Place, seed: u64, opts: Opts) -> Result<Hist, Viol> {
        let sut = match Sut::new(frames, init, cfg, place) {
            Ok(s) => s,
            Err(NewErr::Panic(p)) => {
                return Err(viol(&["C09"], format!("LLFree::new(frames={frames}, {}) panicked: {p}", crate::sut::init_name(init))));
            }
            Err(NewErr::Err(e)) => {
                return Err(viol(&["C09"], format!("LLFree::new(frames={frames}, {}) failed: {e:?}", crate::sut::init_name(init))));
            }
        };
        let (model, held) = match init {
            Init::AllocAll => {
                let m = Model::new_alloc(frames);
                let h = Model::alloc_all_blocks(frames)
                    .into_iter()
                    .map(|b| Held { b, class: cfg.default, rclass: cfg.default })
                    .collect();
                (m, h)
            }
            _ => (Model::new_free(frames), Vec::new()),
        };
        let scratch = if opts.crash { Sut::new(frames, Init::FreeAll, cfg, place).ok() } else { None };
        let mut h = Hist {
            sut,
            scratch,
            model,
            held,
            freed: Vec::new(),
            viols: Vec::new(),
            log: Vec::new(),
            orng: Rng::new(seed ^ 0xabcdef),
            after_drain: false,
            dead: false,
            opts,
            st: HStats::default(),
            init,
            last_raw: String::new(),
            record_raw: false,
        };
        h.full_compare();
        Ok(h)
    }

    pub fn cfg(&self) -> &Cfg {
        &self.sut.cfg
    }

    fn v(&mut self, props: &'static [&'static str], msg: String) {
        let step = self.log.len();
        let op = self.log.last().map(|o| o.short()).unwrap_or_default();
        if self.viols.iter().filter(|v| v.props == props).count() < 3 {
            self.viols.push(viol(props, format!("step {step} {op}: {msg}")));
        }
    }

    pub fn full_compare(&mut self) {
        if self.dead {
            return;
        }
        let mut out = Vec::new();
        let a = self.sut.a();
        // the queries are calls of the interface too: a panic inside one of them (in the allocator's own
        // sources) is an observation for C09; a panic in the monitor itself is a harness error and propagates
        let (model, orng) = (&self.model, &mut self.orng);
        if let Err(p) = catch(|| {
            compare(a, model, orng, &mut out);
            compare_class_stats(a, model, &mut out);
        }) {
            if crate::bufs::panic_in_sut(&p) {
                out.push(viol(&["C09"], format!("a statistics query (stats / stats_at / tree_stats / validate / is_free) panicked: {p}")));
                self.dead = true;
            } else {
                panic!("monitor panicked during comparison: {p}");
            }
        }
        let step = self.log.len();
        let op = self.log.last().map(|o| o.short()).unwrap_or_else(|| "<init>".into());
        for mut x in out {
            x.msg = format!("after step {step} {op}: {}", x.msg);
            if self.viols.iter().filter(|v| v.props == x.props).count() < 3 {
                self.viols.push(x);
            }
        }
    }

    fn req_valid(&self, frame: usize, order: usize, class: u8) -> bool {
        order <= TREE_ORDER
            && frame + (1usize << order) <= self.model.frames
            && frame % (1usize << order) == 0
            && self.cfg().configured(class)
    }

    fn tree_snap(&self) -> Vec<(u8, usize, bool)> {
        let a = self.sut.a();
        (0..self.model.trees())
            .map(|t| {
                let (c, f, r) = a.trees.stats_at(TreeId(t));
                (c.0, f, r)
            })
            .collect()
    }

    /// Execute one call and judge it.
    pub fn exec(&mut self, op: Op) {
        if self.dead {
            return;
        }
        self.log.push(op.clone());
        self.st.calls += 1;
        crate::bufs::set_scenario(1, self.orng.0, self.log.len() as u64);
        let was_after_drain = std::mem::replace(&mut self.after_drain, false);

        // crash monitoring: snapshots before every persistent write of this call
        let model_before = if self.opts.crash { Some(self.model.clone()) } else { None };
        let held_before: Vec<Block> = if self.opts.crash { self.held.iter().map(|h| h.b).collect() } else { Vec::new() };
        let mut sink = SnapSink::new(self.sut.lower.addr(), self.sut.lower.len());
        let crash = self.opts.crash;

        match op.clone() {
            Op::Get { order, class, slot } => {
                let valid = self.req_valid(0, order, class);
                let req = self.cfg().request(order, class, slot);
                let a = self.sut.a();
                let r = if crash {
                    hooks::with_sink(&mut sink, || catch(|| a.get(None, req)))
                } else {
                    catch(|| a.get(None, req))
                };
                if self.record_raw {
                    self.last_raw = format!("{r:?}");
                }
                match r {
                    Err(p) => self.panic(valid, p),
                    Ok(Ok((f, c))) => {
                        self.st.ok += 1;
                        if !valid {
                            self.v(&["C08"], format!("invalid request accepted: Ok(({}, {}))", f.0, c.0));
                        }
                        self.judge_got(Block { frame: f.0, order }, class, c.0, None);
                    }
                    Ok(Err(e)) => {
                        self.judge_err(valid, e);
                        if valid && e == Error::Memory {
                            let has = self.model.has_free_online(order);
                            if was_after_drain && order == 0 && self.cfg().never_invalid {
                                self.st.after_drain_probes += 1;
                                if has {
                                    self.v(&["C10"], format!(
                                        "base-order get right after drain fails with Memory although {} frame(s) outside offline trees are free",
                                        self.model.free_frames() - self.model.free_offline()
                                    ));
                                }
                            }
                            if has && order > 0 {
                                self.st.missed_higher_order += 1;
                            }
                            self.tuple(format!("get o{order} Memory free_exists={has}"));
                        }
                    }
                }
            }
            Op::GetAt { frame, order, class, slot } => {
                let valid = self.req_valid(frame, order, class);
                let req = self.cfg().request(order, class, slot);
                let a = self.sut.a();
                let r = if crash {
                    hooks::with_sink(&mut sink, || catch(|| a.get(Some(FrameId(frame)), req)))
                } else {
                    catch(|| a.get(Some(FrameId(frame)), req))
                };
                let b = Block { frame, order };
                let expect_ok = valid && self.model.block_free(b) && !self.model.block_offline(b);
                if self.record_raw {
                    self.last_raw = format!("{r:?}");
                }
                match r {
                    Err(p) => self.panic(valid, p),
                    Ok(Ok((f, c))) => {
                        self.st.ok += 1;
                        if !valid {
                            self.v(&["C08"], format!("invalid request accepted: Ok(({}, {}))", f.0, c.0));
                        }
                        self.judge_got(Block { frame: f.0, order }, class, c.0, Some(frame));
                    }
                    Ok(Err(e)) => {
                        self.judge_err(valid, e);
                        if valid && was_after_drain && self.cfg().never_invalid {
                            self.st.after_drain_probes += 1;
                            if expect_ok {
                                self.v(&["C10"], format!(
                                    "targeted get right after drain fails ({}) although the block is entirely free and online", err_name(e)
                                ));
                            }
                        }
                        self.tuple(format!("get_at o{order} {} expect_ok={expect_ok}", err_name(e)));
                    }
                }
            }
            Op::Put { frame, order, class, slot } => {
                let valid = self.req_valid(frame, order, class);
                let req = self.cfg().request(order, class, slot);
                let a = self.sut.a();
                let r = if crash {
                    hooks::with_sink(&mut sink, || catch(|| a.put(FrameId(frame), req)))
                } else {
                    catch(|| a.put(FrameId(frame), req))
                };
                let b = Block { frame, order };
                let can = valid && self.model.can_put(b);
                if self.record_raw {
                    self.last_raw = format!("{r:?}");
                }
                match r {
                    Err(p) => self.panic(valid, p),
                    Ok(Ok(())) => {
                        self.st.ok += 1;
                        if !valid {
                            self.v(&["C08"], "invalid free accepted".to_string());
                        } else if !can {
                            self.v(&["C02"], format!(
                                "put(frame {frame}, order {order}) succeeded although the model says the block is not freeable (allocated frames in block: {}, whole huge: {:?})",
                                (1usize << order) - self.model.free_in(frame, 1 << order),
                                (frame / llfree::HUGE_FRAMES..=(b.end() - 1) / llfree::HUGE_FRAMES).map(|h| self.model.whole[h]).collect::<Vec<_>>()
                            ));
                        }
                        if valid {
                            let split = order < llfree::HUGE_ORDER && self.model.whole[frame / llfree::HUGE_FRAMES];
                            self.tuple(format!("put o{order} Ok split_whole={split} slot={}", slot.is_some()));
                            self.apply_put(b);
                        }
                    }
                    Ok(Err(e)) => {
                        self.judge_err(valid, e);
                        if can {
                            self.v(&["C02"], format!(
                                "put(frame {frame}, order {order}) failed ({}) although every frame of the block is allocated / whole", err_name(e)
                            ));
                        }
                        if valid {
                            self.tuple(format!("put o{order} {} freeable={can}", err_name(e)));
                        }
                    }
                }
            }
            Op::Drain => {
                let a = self.sut.a();
                let r = catch(|| a.drain());
                if self.record_raw {
                    self.last_raw = format!("{r:?}");
                }
                match r {
                    Err(p) => self.panic(true, p),
                    Ok(()) => {
                        self.st.ok += 1;
                        self.after_drain = true;
                    }
                }
            }
            Op::Change { id, mclass, mfree, nclass, op: top } => self.exec_change(id, mclass, mfree, nclass, top),
            Op::Reinit(mode) => {
                let init = if mode == 0 { Init::Recover } else { Init::None };
                match self.sut.reinit(init) {
                    Ok(()) => {
                        self.st.ok += 1;
                        if mode == 0 {
                            self.model.offline.fill(false);
                        }
                    }
                    Err(NewErr::Panic(p)) => {
                        self.st.panics += 1;
                        self.v(&["C09"], format!("LLFree::new({}) over the buffers of this history panicked: {p}", crate::sut::init_name(init)));
                        self.dead = true;
                    }
                    Err(NewErr::Err(e)) => {
                        self.v(if mode == 0 { &["C05"] } else { &["C07"] }, format!("LLFree::new({}) over valid buffers failed: {e:?}", crate::sut::init_name(init)));
                        self.dead = true;
                    }
                }
            }
        }

        if self.dead {
            return;
        }
        if self.st.calls % self.opts.compare_every.max(1) as u64 == 0 {
            self.full_compare();
        }
        self.st.states.insert(self.model.state_hash());

        if crash && !sink.snaps.is_empty() {
            self.judge_crash(&op, sink, model_before.unwrap(), held_before);
        }
    }

    fn judge_crash(&mut self, op: &Op, mut sink: SnapSink, model_before: Model, held_before: Vec<Block>) {
        let Some(mut scratch) = self.scratch.take() else { return };
        self.st.crash_calls += 1;
        let mut tol = Tol::default();
        match op {
            Op::Get { order, .. } => tol.gets.push(*order),
            Op::GetAt { frame, order, .. } => tol.get_ats.push(Block { frame: *frame, order: *order }),
            Op::Put { frame, order, .. } => tol.puts.push(Block { frame: *frame, order: *order }),
            _ => {}
        }
        let n = sink.snaps.len();
        let idx: Vec<usize> = if self.opts.crash_cap > 0 && n > self.opts.crash_cap {
            (0..self.opts.crash_cap).map(|i| i * n / self.opts.crash_cap).collect()
        } else {
            (0..n).collect()
        };
        for i in idx {
            self.st.crash_points += 1;
            let msgs = hooks::bypass(|| check_recovery(&mut scratch, &sink.snaps[i], &model_before, &held_before, &tol));
            for m in msgs {
                self.v(&["C05"], format!("crash before persistent write #{i} of {n}: {m}"));
            }
        }
        // crash point "at the end": after the completed call
        self.st.crash_points += 1;
        let end = sink.snap_now();
        sink.snaps.clear();
        let held_now: Vec<Block> = self.held.iter().map(|h| h.b).collect();
        let msgs = hooks::bypass(|| check_recovery(&mut scratch, &end, &self.model, &held_now, &Tol::default()));
        for m in msgs {
            self.v(&["C05"], format!("crash after the completed call: {m}"));
        }
        self.scratch = Some(scratch);
    }

    fn tuple(&mut self, t: String) {
        self.st.tuples.insert(t);
    }

    fn panic(&mut self, valid: bool, p: String) {
        self.st.panics += 1;
        if valid {
            self.v(&["C09"], format!("call panicked: {p}"));
        } else {
            self.v(&["C08"], format!("invalid call panicked instead of returning an error: {p}"));
        }
        // the allocator may be mid-update: abandon this history
        self.dead = true;
    }

    fn judge_err(&mut self, valid: bool, e: Error) {
        match e {
            Error::Memory => {
                self.st.err_mem += 1;
                if !valid {
                    self.v(&["C08"], "invalid request answered with Memory instead of Argument".to_string());
                }
            }
            Error::Argument => {
                self.st.err_arg += 1;
                if valid {
                    self.v(&["C08"], "valid request rejected with Argument".to_string());
                }
            }
            Error::Initialization => {
                self.v(&["C08"], "request answered with Initialization error".to_string());
            }
        }
    }

    fn judge_got(&mut self, b: Block, rclass: u8, got_class: u8, target: Option<usize>) {
        let m = &self.model;
        let mut ok = true;
        if !m.in_range(b) || !Model::aligned(b) {
            ok = false;
            self.v(&["C02", "C01"], format!("allocation returned frame {} order {}: misaligned or outside the {} managed frames", b.frame, b.order, self.model.frames));
        } else {
            if let Some(t) = target
                && t != b.frame
            {
                self.v(&["C02"], format!("targeted allocation of frame {t} returned frame {}", b.frame));
            }
            if !self.model.block_free(b) {
                ok = false;
                self.v(&["C02", "C01"], format!(
                    "allocation returned frame {} order {} but {} of its frames are already allocated",
                    b.frame, b.order, (1usize << b.order) - self.model.free_in(b.frame, 1 << b.order)
                ));
            } else if self.model.block_offline(b) {
                self.v(&["C15"], format!("allocation returned frame {} order {} from an offline tree", b.frame, b.order));
            }
        }
        if !self.cfg().class_permitted(rclass, got_class, b.order) {
            self.v(&["C13"], format!("requested class {rclass}, allocation reports class {got_class}, which the policy rates neither match nor stealable"));
        }
        self.tuple(format!("get{} o{} Ok class_same={}", if target.is_some() { "_at" } else { "" }, b.order, rclass == got_class));
        if ok {
            self.model.apply_get(b);
            self.held.push(Held { b, class: got_class, rclass });
        } else {
            // state unknown from here on
            self.dead = true;
        }
    }

    fn apply_put(&mut self, b: Block) {
        if !self.model.can_put(b) {
            // wrongly accepted free: model can no longer follow
            self.dead = true;
            return;
        }
        self.model.apply_put(b);
        self.freed.push(b);
        if self.freed.len() > 32 {
            self.freed.remove(0);
        }
        // update held pieces: remove the freed range from every held block it intersects
        let mut out = Vec::with_capacity(self.held.len());
        for h in self.held.drain(..) {
            if !h.b.overlaps(&b) {
                out.push(h);
            } else if h.b.order > b.order && h.b.contains(b.frame) {
                for p in Model::split_remaining(h.b, b) {
                    out.push(Held { b: p, ..h });
                }
            }
            // else: held block inside the freed block: gone
        }
        self.held = out;
    }

    fn exec_change(&mut self, id: Option<usize>, mclass: Option<u8>, mfree: usize, nclass: Option<u8>, top: u8) {
        let before = self.tree_snap();
        let matcher = TreeMatch { id: id.map(TreeId), class: mclass.map(Class), free: mfree };
        let change = TreeChange {
            class: nclass.map(Class),
            operation: match top {
                1 => Some(TreeOperation::Online),
                2 => Some(TreeOperation::Offline),
                _ => None,
            },
        };
        let a = self.sut.a();
        let r = catch(|| a.change_tree(matcher, change));
        if self.record_raw {
            self.last_raw = format!("{r:?}");
        }
        let trees = self.model.trees();
        match r {
            Err(p) => self.panic(true, p),
            Ok(res) => {
                let after = self.tree_snap();
                let changed: Vec<usize> = (0..trees).filter(|&t| before[t] != after[t]).collect();
                let matches = |t: usize| -> bool {
                    let (c, f, r) = before[t];
                    !r && mclass.is_none_or(|k| k == c) && f >= mfree
                };
                match res {
                    Ok(()) => {
                        self.st.ok += 1;
                        if changed.len() > 1 {
                            self.v(&["C15"], format!("change_tree changed {} trees: {changed:?}", changed.len()));
                        }
                        // which tree was it applied to?
                        let target = if let Some(i) = id {
                            if i >= trees {
                                self.v(&["C15"], format!("change_tree naming non-existent tree {i} returned Ok"));
                                return;
                            }
                            Some(i)
                        } else {
                            changed.first().copied()
                        };
                        if let Some(&t) = changed.first() {
                            if Some(t) != target {
                                self.v(&["C15"], format!("change_tree for tree {target:?} changed tree {t}"));
                            }
                            if before[t].2 {
                                self.v(&["C15"], format!("tree change applied to reserved tree {t}"));
                            } else if !matches(t) {
                                self.v(&["C15"], format!("tree change applied to tree {t} {:?} which does not match (class {mclass:?}, free >= {mfree})", before[t]));
                            }
                        }
                        if let Some(t) = target {
                            if !matches(t) {
                                self.v(&["C15"], format!("change_tree returned Ok for tree {t} {:?} which is reserved or does not match", before[t]));
                            }
                            // expected new entry
                            let (bc, bf, _) = before[t];
                            let want_class = nclass.unwrap_or(bc);
                            let tree_free = self.model.free_in(t * TREE_FRAMES, TREE_FRAMES);
                            let want_free = match top {
                                2 => 0,
                                1 => tree_free,
                                _ => bf,
                            };
                            if top == 1 && bf != 0 {
                                self.v(&["C15"], format!("online of tree {t} with non-zero counter {bf} returned Ok"));
                            }
                            let (ac, af, ar) = after[t];
                            if ac != want_class || af != want_free || ar {
                                self.v(&["C15"], format!("tree {t} after change: class {ac} free {af} reserved {ar}; expected class {want_class} free {want_free}"));
                            }
                            match top {
                                2 => {
                                    let managed = TREE_FRAMES.min(self.model.frames - t * TREE_FRAMES);
                                    if tree_free == managed || tree_free == 0 {
                                        self.model.offline[t] = tree_free > 0;
                                    } else {
                                        // out of the property's scope (partially allocated tree taken offline): stop judging
                                        self.dead = true;
                                    }
                                }
                                1 => self.model.offline[t] = false,
                                _ => {}
                            }
                            self.tuple(format!("change op{top} Ok byid={} class={}", id.is_some(), nclass.is_some()));
                        }
                    }
                    Err(e) => {
                        if !changed.is_empty() {
                            self.v(&["C15"], format!("change_tree failed ({}) but changed trees {changed:?}", err_name(e)));
                        }
                        // taking an unreserved, entirely free, matching tree offline must succeed
                        if top == 2
                            && let Some(t) = id
                            && t < trees
                            && matches(t)
                            && before[t].1 == TREE_FRAMES
                        {
                            self.v(&["C15"], format!("offlining unreserved, entirely free tree {t} failed: {}", err_name(e)));
                        }
                        self.tuple(format!("change op{top} {} byid={}", err_name(e), id.is_some()));
                    }
                }
            }
        }
    }

    /// Free everything still held (every piece must be freeable) and compare with an empty model.
    pub fn release_all(&mut self) {
        if self.dead {
            return;
        }
        let cls = self.cfg().classes[0].0;
        let mut held: Vec<Held> = self.held.clone();
        // free larger pieces first
        held.sort_by(|a, b| b.b.order.cmp(&a.b.order));
        for h in held {
            if self.dead {
                return;
            }
            if self.model.can_put(h.b) {
                self.exec(Op::Put { frame: h.b.frame, order: h.b.order, class: cls, slot: None });
            }
        }
    }
}
