//! Minimal JSON value + writer + parser (no external crates available offline besides libc).

use std::collections::BTreeMap;
use std::fmt::Write;

#[derive(Clone, Debug, PartialEq)]
pub enum J {
    Null,
    Bool(bool),
    Int(i64),
    Num(f64),
    Str(String),
    Arr(Vec<J>),
    Obj(BTreeMap<String, J>),
}

impl J {
    pub fn obj() -> J {
        J::Obj(BTreeMap::new())
    }
    pub fn set(&mut self, k: &str, v: impl Into<J>) -> &mut Self {
        if let J::Obj(m) = self {
            m.insert(k.to_string(), v.into());
        }
        self
    }
    pub fn with(mut self, k: &str, v: impl Into<J>) -> Self {
        self.set(k, v);
        self
    }
    pub fn get(&self, k: &str) -> Option<&J> {
        match self {
            J::Obj(m) => m.get(k),
            _ => None,
        }
    }
    pub fn as_i64(&self) -> Option<i64> {
        match self {
            J::Int(i) => Some(*i),
            J::Num(f) => Some(*f as i64),
            _ => None,
        }
    }
    pub fn as_u64(&self) -> Option<u64> {
        self.as_i64().map(|i| i as u64)
    }
    pub fn as_usize(&self) -> Option<usize> {
        self.as_i64().map(|i| i as usize)
    }
    pub fn as_str(&self) -> Option<&str> {
        match self {
            J::Str(s) => Some(s),
            _ => None,
        }
    }
    pub fn as_bool(&self) -> Option<bool> {
        match self {
            J::Bool(b) => Some(*b),
            _ => None,
        }
    }
    pub fn as_arr(&self) -> Option<&Vec<J>> {
        match self {
            J::Arr(a) => Some(a),
            _ => None,
        }
    }
    pub fn dump(&self) -> String {
        let mut s = String::new();
        self.write(&mut s);
        s
    }
    fn write(&self, s: &mut String) {
        match self {
            J::Null => s.push_str("null"),
            J::Bool(b) => {
                let _ = write!(s, "{b}");
            }
            J::Int(i) => {
                let _ = write!(s, "{i}");
            }
            J::Num(f) => {
                if f.is_finite() {
                    let _ = write!(s, "{f}");
                } else {
                    s.push_str("null");
                }
            }
            J::Str(x) => {
                s.push('"');
                for c in x.chars() {
                    match c {
                        '"' => s.push_str("\\\""),
                        '\\' => s.push_str("\\\\"),
                        '\n' => s.push_str("\\n"),
                        '\r' => s.push_str("\\r"),
                        '\t' => s.push_str("\\t"),
                        c if (c as u32) < 0x20 => {
                            let _ = write!(s, "\\u{:04x}", c as u32);
                        }
                        c => s.push(c),
                    }
                }
                s.push('"');
            }
            J::Arr(a) => {
                s.push('[');
                for (i, v) in a.iter().enumerate() {
                    if i > 0 {
                        s.push(',');
                    }
                    v.write(s);
                }
                s.push(']');
            }
            J::Obj(m) => {
                s.push('{');
                for (i, (k, v)) in m.iter().enumerate() {
                    if i > 0 {
                        s.push(',');
                    }
                    J::Str(k.clone()).write(s);
                    s.push(':');
                    v.write(s);
                }
                s.push('}');
            }
        }
    }

    pub fn parse(text: &str) -> Result<J, String> {
        let b = text.as_bytes();
        let mut p = 0usize;
        let v = parse_val(b, &mut p)?;
        skip_ws(b, &mut p);
        if p != b.len() {
            return Err(format!("trailing data at {p}"));
        }
        Ok(v)
    }
}

fn skip_ws(b: &[u8], p: &mut usize) {
    while *p < b.len() && (b[*p] as char).is_ascii_whitespace() {
        *p += 1;
    }
}

fn parse_val(b: &[u8], p: &mut usize) -> Result<J, String> {
    skip_ws(b, p);
    if *p >= b.len() {
        return Err("eof".into());
    }
    match b[*p] {
        b'{' => {
            *p += 1;
            let mut m = BTreeMap::new();
            loop {
                skip_ws(b, p);
                if *p < b.len() && b[*p] == b'}' {
                    *p += 1;
                    break;
                }
                let k = match parse_val(b, p)? {
                    J::Str(s) => s,
                    _ => return Err("key".into()),
                };
                skip_ws(b, p);
                if *p >= b.len() || b[*p] != b':' {
                    return Err("colon".into());
                }
                *p += 1;
                let v = parse_val(b, p)?;
                m.insert(k, v);
                skip_ws(b, p);
                if *p < b.len() && b[*p] == b',' {
                    *p += 1;
                }
            }
            Ok(J::Obj(m))
        }
        b'[' => {
            *p += 1;
            let mut a = Vec::new();
            loop {
                skip_ws(b, p);
                if *p < b.len() && b[*p] == b']' {
                    *p += 1;
                    break;
                }
                a.push(parse_val(b, p)?);
                skip_ws(b, p);
                if *p < b.len() && b[*p] == b',' {
                    *p += 1;
                }
            }
            Ok(J::Arr(a))
        }
        b'"' => {
            *p += 1;
            let mut s = String::new();
            while *p < b.len() && b[*p] != b'"' {
                if b[*p] == b'\\' {
                    *p += 1;
                    match b[*p] {
                        b'n' => s.push('\n'),
                        b't' => s.push('\t'),
                        b'r' => s.push('\r'),
                        b'u' => {
                            let h = std::str::from_utf8(&b[*p + 1..*p + 5]).map_err(|e| e.to_string())?;
                            let c = u32::from_str_radix(h, 16).map_err(|e| e.to_string())?;
                            s.push(char::from_u32(c).unwrap_or('?'));
                            *p += 4;
                        }
                        c => s.push(c as char),
                    }
                    *p += 1;
                } else {
                    // copy utf-8 bytes
                    let start = *p;
                    *p += 1;
                    while *p < b.len() && (b[*p] & 0xc0) == 0x80 {
                        *p += 1;
                    }
                    s.push_str(std::str::from_utf8(&b[start..*p]).map_err(|e| e.to_string())?);
                }
            }
            *p += 1;
            Ok(J::Str(s))
        }
        b't' => {
            *p += 4;
            Ok(J::Bool(true))
        }
        b'f' => {
            *p += 5;
            Ok(J::Bool(false))
        }
        b'n' => {
            *p += 4;
            Ok(J::Null)
        }
        _ => {
            let start = *p;
            while *p < b.len() && matches!(b[*p], b'0'..=b'9' | b'-' | b'+' | b'.' | b'e' | b'E') {
                *p += 1;
            }
            let t = std::str::from_utf8(&b[start..*p]).map_err(|e| e.to_string())?;
            if let Ok(i) = t.parse::<i64>() {
                Ok(J::Int(i))
            } else {
                t.parse::<f64>().map(J::Num).map_err(|e| format!("num {t}: {e}"))
            }
        }
    }
}

impl From<bool> for J {
    fn from(v: bool) -> J {
        J::Bool(v)
    }
}
impl From<i64> for J {
    fn from(v: i64) -> J {
        J::Int(v)
    }
}
impl From<u64> for J {
    fn from(v: u64) -> J {
        J::Int(v as i64)
    }
}
impl From<usize> for J {
    fn from(v: usize) -> J {
        J::Int(v as i64)
    }
}
impl From<u32> for J {
    fn from(v: u32) -> J {
        J::Int(v as i64)
    }
}
impl From<u8> for J {
    fn from(v: u8) -> J {
        J::Int(v as i64)
    }
}
impl From<f64> for J {
    fn from(v: f64) -> J {
        J::Num(v)
    }
}
impl From<&str> for J {
    fn from(v: &str) -> J {
        J::Str(v.to_string())
    }
}
impl From<String> for J {
    fn from(v: String) -> J {
        J::Str(v)
    }
}
impl<T: Into<J>> From<Vec<T>> for J {
    fn from(v: Vec<T>) -> J {
        J::Arr(v.into_iter().map(Into::into).collect())
    }
}
impl<T: Into<J>> From<Option<T>> for J {
    fn from(v: Option<T>) -> J {
        match v {
            Some(x) => x.into(),
            None => J::Null,
        }
    }
}
