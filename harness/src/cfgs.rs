//! Class configurations used by the monitors (the repository's built-in ones, the zeroed policy of
//! its integration tests, zero-slot classings and a custom policy with unusable class pairs).

use llfree::{Class, Classing, Policy, PolicyFn, Request, TREE_FRAMES};

#[derive(Clone)]
pub struct Cfg {
    pub name: &'static str,
    /// (class id, number of local slots)
    pub classes: Vec<(u8, usize)>,
    pub default: u8,
    pub policy: PolicyFn,
    /// the policy never answers `Invalid` for a pair of configured classes
    pub never_invalid: bool,
}

/// Policy of `eval/tests/integration.rs::zeroed_steals_from_huge` (copied verbatim).
pub fn zeroed_policy(requested: Class, target: Class, free: usize) -> Policy {
    if requested.0 > target.0 {
        return Policy::Steal;
    } else if requested.0 < target.0 {
        return Policy::Demote;
    }
    match free {
        f if f >= TREE_FRAMES / 2 => Policy::Match(1),
        f if f >= TREE_FRAMES / 64 => Policy::Match(u8::MAX),
        _ => Policy::Match(0),
    }
}

/// Custom policy: classes 0,1,2; class 2 may use nothing but its own trees and nobody may use class 2
/// trees (`Invalid` pairs); 0 and 1 as in the simple policy.
pub fn island_policy(requested: Class, target: Class, free: usize) -> Policy {
    if (requested.0 == 2) != (target.0 == 2) {
        return Policy::Invalid;
    }
    if requested.0 > target.0 {
        return Policy::Steal;
    } else if requested.0 < target.0 {
        return Policy::Demote;
    }
    match free {
        f if f >= TREE_FRAMES / 2 => Policy::Match(1),
        f if f >= TREE_FRAMES / 64 => Policy::Match(u8::MAX),
        _ => Policy::Match(0),
    }
}

impl Cfg {
    pub fn simple(slots: usize) -> Cfg {
        let (c, _) = Classing::simple(slots);
        Cfg {
            name: "simple",
            classes: c.classes().iter().map(|&(c, n)| (c.0, n)).collect(),
            default: c.default.0,
            policy: c.policy,
            never_invalid: true,
        }
    }
    pub fn movable(slots: usize) -> Cfg {
        let (c, _) = Classing::movable(slots);
        Cfg {
            name: "movable",
            classes: c.classes().iter().map(|&(c, n)| (c.0, n)).collect(),
            default: c.default.0,
            policy: c.policy,
            never_invalid: true,
        }
    }
    pub fn zeroed(slots: usize) -> Cfg {
        Cfg {
            name: "zeroed",
            classes: vec![(0, slots), (1, slots), (2, slots)],
            default: 1,
            policy: zeroed_policy,
            never_invalid: true,
        }
    }
    /// Classes without any local slot (requests carry `local: None`)
    pub fn zero_slot() -> Cfg {
        let (c, _) = Classing::simple(1);
        Cfg { name: "zeroslot", classes: vec![(0, 0), (1, 0)], default: 1, policy: c.policy, never_invalid: true }
    }
    /// Some classes with, some without slots
    pub fn mixed_slot(slots: usize) -> Cfg {
        let (c, _) = Classing::movable(1);
        Cfg {
            name: "mixedslot",
            classes: vec![(0, slots), (1, 0), (2, slots)],
            default: 1,
            policy: c.policy,
            never_invalid: true,
        }
    }
    /// like mixed_slot but the default class has slots and a low class has none
    pub fn mixed_slot2(slots: usize) -> Cfg {
        Cfg {
            name: "mixedslot2",
            classes: vec![(0, 0), (1, slots), (2, slots)],
            default: 2,
            policy: zeroed_policy,
            never_invalid: true,
        }
    }
    pub fn island(slots: usize) -> Cfg {
        Cfg {
            name: "island",
            classes: vec![(0, slots), (1, slots), (2, slots)],
            default: 1,
            policy: island_policy,
            never_invalid: false,
        }
    }
    /// single class, single slot (C11)
    pub fn single() -> Cfg {
        let (c, _) = Classing::simple(1);
        Cfg { name: "single", classes: vec![(0, 1)], default: 0, policy: c.policy, never_invalid: true }
    }

    pub fn by_name(name: &str, slots: usize) -> Cfg {
        match name {
            "simple" => Cfg::simple(slots),
            "movable" => Cfg::movable(slots),
            "zeroed" => Cfg::zeroed(slots),
            "zeroslot" => Cfg::zero_slot(),
            "mixedslot" => Cfg::mixed_slot(slots),
            "mixedslot2" => Cfg::mixed_slot2(slots),
            "island" => Cfg::island(slots),
            "single" => Cfg::single(),
            _ => panic!("unknown cfg {name}"),
        }
    }
    /// number of slots of the first class that has any (for replay files)
    pub fn slots(&self) -> usize {
        self.classes.iter().map(|c| c.1).max().unwrap_or(0)
    }

    pub fn classing(&self) -> Classing {
        let cl: Vec<(Class, usize)> = self.classes.iter().map(|&(c, n)| (Class(c), n)).collect();
        Classing::new(&cl, Class(self.default), self.policy)
    }
    pub fn slot_count(&self, class: u8) -> Option<usize> {
        self.classes.iter().find(|c| c.0 == class).map(|c| c.1)
    }
    pub fn configured(&self, class: u8) -> bool {
        self.slot_count(class).is_some()
    }
    /// C13: is `reported` a class the policy permits for a request of `requested`?
    pub fn class_permitted(&self, requested: u8, reported: u8, order: usize) -> bool {
        if requested == reported {
            return true;
        }
        if !self.configured(reported) {
            return false;
        }
        let mut f = 1usize << order;
        let mut samples = vec![TREE_FRAMES / 64, TREE_FRAMES / 64 - 1, TREE_FRAMES / 2, TREE_FRAMES / 2 - 1, TREE_FRAMES];
        while f <= TREE_FRAMES {
            samples.push(f);
            f <<= 1;
        }
        samples.into_iter().filter(|&f| f >= (1 << order) && f <= TREE_FRAMES).any(|f| {
            matches!((self.policy)(Class(requested), Class(reported), f), Policy::Match(_) | Policy::Steal)
        })
    }
    pub fn request(&self, order: usize, class: u8, slot: Option<usize>) -> Request {
        Request::new(order, Class(class), slot)
    }
}
