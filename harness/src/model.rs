//! Frame-ownership reference model. Shares no code with llfree. It knows nothing about
//! reservations or placement: the allocator may choose any free block, the model only judges
//! whether a result is permitted and what the allocation state is afterwards.

use llfree::{HUGE_FRAMES, HUGE_ORDER, TREE_FRAMES};

use crate::rng::hash64;

#[derive(Clone, Debug)]
pub struct Model {
    pub frames: usize,
    /// frame is allocated
    pub alloc: Vec<bool>,
    /// huge frame was allocated as one huge frame and has not been split
    pub whole: Vec<bool>,
    /// tree is offline (was entirely free when taken offline)
    pub offline: Vec<bool>,
}

#[derive(Clone, Copy, Debug, PartialEq, Eq, PartialOrd, Ord)]
pub struct Block {
    pub frame: usize,
    pub order: usize,
}
impl Block {
    pub fn len(&self) -> usize {
        1 << self.order
    }
    pub fn end(&self) -> usize {
        self.frame + self.len()
    }
    pub fn overlaps(&self, o: &Block) -> bool {
        self.frame < o.end() && o.frame < self.end()
    }
    pub fn contains(&self, f: usize) -> bool {
        f >= self.frame && f < self.end()
    }
}

impl Model {
    pub fn new_free(frames: usize) -> Model {
        Model {
            frames,
            alloc: vec![false; frames],
            whole: vec![false; frames.div_ceil(HUGE_FRAMES)],
            offline: vec![false; frames.div_ceil(TREE_FRAMES)],
        }
    }
    /// State after `Init::AllocAll`: every completely managed huge frame is a whole huge frame,
    /// the frames of a partial last huge frame are allocated as base frames.
    pub fn new_alloc(frames: usize) -> Model {
        let mut m = Model::new_free(frames);
        m.alloc.fill(true);
        for h in 0..frames / HUGE_FRAMES {
            m.whole[h] = true;
        }
        m
    }
    /// Blocks a caller holds after `Init::AllocAll`
    pub fn alloc_all_blocks(frames: usize) -> Vec<Block> {
        let mut v = Vec::new();
        for h in 0..frames / HUGE_FRAMES {
            v.push(Block { frame: h * HUGE_FRAMES, order: HUGE_ORDER });
        }
        for f in (frames / HUGE_FRAMES) * HUGE_FRAMES..frames {
            v.push(Block { frame: f, order: 0 });
        }
        v
    }
    pub fn trees(&self) -> usize {
        self.frames.div_ceil(TREE_FRAMES)
    }
    pub fn huges(&self) -> usize {
        self.frames.div_ceil(HUGE_FRAMES)
    }
    pub fn in_range(&self, b: Block) -> bool {
        b.end() <= self.frames
    }
    pub fn aligned(b: Block) -> bool {
        b.frame % b.len() == 0
    }
    /// every frame of the block is free
    pub fn block_free(&self, b: Block) -> bool {
        self.in_range(b) && self.alloc[b.frame..b.end()].iter().all(|a| !a)
    }
    /// every frame of the block is allocated
    pub fn block_alloc(&self, b: Block) -> bool {
        self.in_range(b) && self.alloc[b.frame..b.end()].iter().all(|a| *a)
    }
    pub fn block_offline(&self, b: Block) -> bool {
        (b.frame / TREE_FRAMES..=(b.end() - 1) / TREE_FRAMES).any(|t| self.offline[t])
    }
    /// The property's rule for frees.
    pub fn can_put(&self, b: Block) -> bool {
        if !self.in_range(b) || !Self::aligned(b) {
            return false;
        }
        if b.order >= HUGE_ORDER {
            (b.frame / HUGE_FRAMES..b.end() / HUGE_FRAMES).all(|h| self.whole[h])
        } else {
            self.block_alloc(b)
        }
    }
    pub fn apply_put(&mut self, b: Block) {
        self.alloc[b.frame..b.end()].fill(false);
        // freeing (part of) a whole huge frame: it is no longer whole
        for h in b.frame / HUGE_FRAMES..=(b.end() - 1) / HUGE_FRAMES {
            self.whole[h] = false;
        }
    }
    pub fn apply_get(&mut self, b: Block) {
        self.alloc[b.frame..b.end()].fill(true);
        if b.order >= HUGE_ORDER {
            for h in b.frame / HUGE_FRAMES..b.end() / HUGE_FRAMES {
                self.whole[h] = true;
            }
        }
    }
    pub fn free_frames(&self) -> usize {
        self.alloc.iter().filter(|a| !**a).count()
    }
    pub fn free_in(&self, start: usize, len: usize) -> usize {
        let end = (start + len).min(self.frames);
        if start >= end {
            return 0;
        }
        self.alloc[start..end].iter().filter(|a| !**a).count()
    }
    /// entirely free, completely managed huge frames
    pub fn free_huge(&self) -> usize {
        (0..self.frames / HUGE_FRAMES)
            .filter(|&h| self.free_in(h * HUGE_FRAMES, HUGE_FRAMES) == HUGE_FRAMES)
            .count()
    }
    pub fn free_trees(&self) -> usize {
        (0..self.frames / TREE_FRAMES)
            .filter(|&t| self.free_in(t * TREE_FRAMES, TREE_FRAMES) == TREE_FRAMES)
            .count()
    }
    pub fn tree_entirely_free(&self, t: usize) -> bool {
        (t + 1) * TREE_FRAMES <= self.frames && self.free_in(t * TREE_FRAMES, TREE_FRAMES) == TREE_FRAMES
    }
    pub fn free_offline(&self) -> usize {
        (0..self.trees())
            .filter(|&t| self.offline[t])
            .map(|t| self.free_in(t * TREE_FRAMES, TREE_FRAMES))
            .sum()
    }
    pub fn any_offline(&self) -> bool {
        self.offline.iter().any(|o| *o)
    }
    /// a free frame outside offline trees exists
    pub fn has_free_online(&self, order: usize) -> bool {
        let n = 1usize << order;
        (0..self.frames / n).any(|i| {
            let b = Block { frame: i * n, order };
            self.block_free(b) && !self.block_offline(b)
        })
    }
    pub fn state_hash(&self) -> u64 {
        let mut h = 0x1234_5678u64;
        let mut acc = 0u64;
        for (i, a) in self.alloc.iter().enumerate() {
            acc = (acc << 1) | (*a as u64);
            if i % 64 == 63 {
                h = hash64(h, acc);
                acc = 0;
            }
        }
        h = hash64(h, acc);
        for w in &self.whole {
            h = hash64(h, *w as u64 + 2);
        }
        for o in &self.offline {
            h = hash64(h, *o as u64 + 4);
        }
        h
    }
    /// Remaining held pieces when sub-block `part` is removed from held block `b`
    /// (buddy decomposition: one piece per level).
    pub fn split_remaining(b: Block, part: Block) -> Vec<Block> {
        debug_assert!(b.contains(part.frame) && part.end() <= b.end() && part.order <= b.order);
        let mut out = Vec::new();
        let mut cur = part;
        while cur.order < b.order {
            let buddy = cur.frame ^ (1 << cur.order);
            out.push(Block { frame: buddy, order: cur.order });
            cur = Block { frame: cur.frame & !(1 << cur.order), order: cur.order + 1 };
        }
        out
    }
}
