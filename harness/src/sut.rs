//! The system under test: a real `LLFree` over guard-paged metadata buffers.

use llfree::{Alloc, Error, Init, LLFree, MetaData};

use crate::bufs::{Buf, Place, catch};
use crate::cfgs::Cfg;

pub struct Sut {
    pub alloc: Option<LLFree<'static>>,
    pub local: Buf,
    pub trees: Buf,
    pub lower: Buf,
    pub frames: usize,
    pub cfg: Cfg,
    pub place: Place,
}

pub fn init_name(i: Init) -> &'static str {
    match i {
        Init::FreeAll => "FreeAll",
        Init::AllocAll => "AllocAll",
        Init::Recover => "Recover",
        Init::None => "None",
    }
}

#[derive(Debug)]
pub enum NewErr {
    Err(Error),
    Panic(String),
}

impl Sut {
    /// Fresh buffers: `trees` and `lower` pre-filled with garbage (the allocator must initialise
    /// what it reads), `local` zeroed (`Locals::new` keeps buffer contents by design).
    pub fn new(frames: usize, init: Init, cfg: &Cfg, place: Place) -> Result<Sut, NewErr> {
        let classing = cfg.classing();
        let ms = LLFree::metadata_size(&classing, frames);
        let local = Buf::new(ms.local, place, 0);
        let trees = Buf::new(ms.trees, place, 0xA5);
        let lower = Buf::new(ms.lower, place, 0xA5);
        let mut s = Sut { alloc: None, local, trees, lower, frames, cfg: cfg.clone(), place };
        s.build(init)?;
        Ok(s)
    }

    /// Construct the allocator over the current contents of the buffers.
    pub fn build(&mut self, init: Init) -> Result<(), NewErr> {
        self.alloc = None;
        let classing = self.cfg.classing();
        let meta = unsafe { MetaData { local: self.local.slice(), trees: self.trees.slice(), lower: self.lower.slice() } };
        let frames = self.frames;
        match catch(|| LLFree::new(frames, init, &classing, meta)) {
            Ok(Ok(a)) => {
                self.alloc = Some(a);
                Ok(())
            }
            Ok(Err(e)) => Err(NewErr::Err(e)),
            Err(p) => Err(NewErr::Panic(p)),
        }
    }

    /// Re-initialise over the same buffers (quiescent point).
    /// `Recover`: volatile buffers are lost (local zeroed, trees garbage), lower kept.
    /// `None`: everything kept.
    pub fn reinit(&mut self, init: Init) -> Result<(), NewErr> {
        self.alloc = None;
        match init {
            Init::Recover | Init::FreeAll | Init::AllocAll => {
                self.local.fill(0);
                self.trees.fill(0x5A);
            }
            Init::None => {}
        }
        self.build(init)
    }

    pub fn a(&self) -> &LLFree<'static> {
        self.alloc.as_ref().expect("allocator present")
    }
}
