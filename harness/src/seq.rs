//! `vmon seq`: sequential histories (random and bounded-exhaustive) for one property.

use std::collections::BTreeSet;
use std::time::{Duration, Instant};

use llfree::{HUGE_FRAMES, Init, TREE_FRAMES, TREE_HUGE};

use crate::bufs::{Place, default_place};
use crate::cfgs::Cfg;
use crate::generator::{Emph, Gen, alphabet, instantiate};
use crate::hist::{Hist, Opts};
use crate::json::J;
use crate::ops::Op;
use crate::oracle::Viol;
use crate::rng::Rng;
use crate::{Args, Report};

pub fn emph_for(prop: &str) -> Emph {
    match prop {
        "C02" => Emph::Frees,
        "C04" | "C14" | "C05" => Emph::Counters,
        "C15" => Emph::Trees,
        "C10" => Emph::Drains,
        "C09" | "C18" => Emph::Wild,
        "C13" => Emph::Classes,
        _ => Emph::Frees,
    }
}

/// Frame counts: whole trees, last tree with 1..TREE_HUGE huge frames, partial huge frames, tiny
pub fn frame_counts(rng: &mut Rng, max_trees: usize, tiny: bool) -> usize {
    let t = rng.range(1, max_trees + 1);
    match rng.below(if tiny { 10 } else { 8 }) {
        0..=3 => t * TREE_FRAMES,
        4 | 5 => {
            let k = rng.below(TREE_HUGE);
            (t * TREE_FRAMES - k * HUGE_FRAMES).max(HUGE_FRAMES)
        }
        6 | 7 => {
            let k = rng.below(TREE_HUGE);
            let r = *rng.pick(&[1usize, 63, 64, 65, 127, 511, HUGE_FRAMES - 1]);
            (t * TREE_FRAMES - k * HUGE_FRAMES).saturating_sub(r).max(1)
        }
        _ => *rng.pick(&[0usize, 1, 2, 63, 64, 65, 511, 512, 513, HUGE_FRAMES - 1, HUGE_FRAMES, HUGE_FRAMES + 1]),
    }
}

pub fn cfgs_for(prop: &str, rng: &mut Rng) -> Cfg {
    let slots = rng.range(1, 4);
    let names: &[&str] = match prop {
        "C10" => &["simple", "movable", "zeroed", "zeroslot", "mixedslot", "mixedslot2"],
        "C13" => &["simple", "movable", "zeroed", "island", "island", "mixedslot2"],
        "C09" | "C18" => &["simple", "movable", "zeroed", "zeroslot", "mixedslot", "mixedslot2", "zeroed"],
        _ => &["simple", "movable", "zeroed", "zeroslot", "mixedslot", "mixedslot2", "island"],
    };
    Cfg::by_name(*rng.pick(names), slots)
}

pub struct Scenario {
    pub frames: usize,
    pub init: Init,
    pub cfg: Cfg,
    pub place: Place,
}

pub fn replay_json(prop: &str, sc: &Scenario, opts: &Opts, log: &[Op], v: &Viol) -> J {
    J::obj()
        .with("engine", "seq")
        .with("property", prop)
        .with("geometry", crate::geometry())
        .with("frames", sc.frames)
        .with("init", crate::sut::init_name(sc.init))
        .with("cfg", sc.cfg.name)
        .with("slots", sc.cfg.slots())
        .with("place", format!("{:?}", sc.place))
        .with("crash", opts.crash)
        .with("ops", J::Arr(log.iter().map(|o| o.to_json()).collect()))
        .with("violates", J::Arr(v.props.iter().map(|p| J::from(*p)).collect()))
        .with("message", v.msg.clone())
}

pub fn collect(rep: &mut Report, prop: &str, sc: &Scenario, h: &Hist) {
    rep.calls += h.st.calls;
    rep.crash_points += h.st.crash_points;
    rep.add("ok", h.st.ok);
    rep.add("err_memory", h.st.err_mem);
    rep.add("err_argument", h.st.err_arg);
    rep.add("panics", h.st.panics);
    rep.add("after_drain_probes", h.st.after_drain_probes);
    rep.add("memory_although_higher_order_block_free", h.st.missed_higher_order);
    rep.add("calls_with_crash_points", h.st.crash_calls);
    for t in &h.st.tuples {
        rep.tuples.insert(t.clone());
    }
    for s in &h.st.states {
        if rep.states.len() < crate::STATES_CAP {
            rep.states.insert(*s);
        } else {
            rep.add("distinct_states_not_counted_cap_reached", 1);
            break;
        }
    }
    for v in &h.viols {
        if v.props.contains(&prop) {
            rep.violation(prop, &v.msg, || replay_json(prop, sc, &h.opts, &h.log, v));
        } else {
            rep.other(v);
        }
    }
}

fn sample_of(sc: &Scenario, h: &Hist) -> J {
    J::obj()
        .with("frames", sc.frames)
        .with("init", crate::sut::init_name(sc.init))
        .with("cfg", sc.cfg.name)
        .with("calls", h.log.len())
        .with("first_ops", J::Arr(h.log.iter().take(24).map(|o| J::from(o.short())).collect()))
}

pub fn run(args: &Args) -> Report {
    let prop = args.prop.as_str();
    let mut rep = Report::new(prop, "seq");
    let deadline = Instant::now() + Duration::from_millis(args.budget_ms);
    let mut master = Rng::new(args.seed.wrapping_mul(0x1000).wrapping_add(args.shard as u64));
    let opts = Opts { compare_every: 1, crash: prop == "C05", crash_cap: if prop == "C05" { 24 } else { 0 } };
    let max_trees = if cfg!(feature = "16K") || TREE_HUGE >= 8 { 2 } else { 4 };

    // ---- part 1: bounded-exhaustive over the abstract alphabet (sharded by index)
    let l = args.depth.max(1);
    if args.exh {
        let starts: Vec<(usize, Init, &str)> = vec![
            (TREE_FRAMES, Init::FreeAll, "simple"),
            (TREE_FRAMES, Init::AllocAll, "simple"),
            (2 * TREE_FRAMES, Init::FreeAll, "movable"),
            (2 * TREE_FRAMES - HUGE_FRAMES.min(TREE_FRAMES / 2) - 65, Init::FreeAll, "zeroed"),
            (TREE_FRAMES + HUGE_FRAMES / 2, Init::AllocAll, "movable"),
            (2 * TREE_FRAMES, Init::AllocAll, "zeroslot"),
            (3 * TREE_FRAMES, Init::FreeAll, "mixedslot"),
            (HUGE_FRAMES + 65, Init::FreeAll, "simple"),
        ];
        let mut total = 0u64;
        'outer: for (si, (frames, init, cname)) in starts.iter().enumerate() {
            let cfg = Cfg::by_name(cname, 1);
            let alpha = alphabet(*frames, cfg.classes.len(), args.tier_thorough);
            let n = alpha.len();
            let count = (n as u64).pow(l as u32);
            for idx in 0..count {
                total += 1;
                if total % args.shards as u64 != args.shard as u64 {
                    continue;
                }
                if Instant::now() > deadline {
                    rep.add("exhaustive_incomplete", 1);
                    break 'outer;
                }
                let sc = Scenario { frames: *frames, init: *init, cfg: cfg.clone(), place: default_place(si as u64 + idx) };
                let mut h = match Hist::start(sc.frames, sc.init, &sc.cfg, sc.place, idx, opts.clone()) {
                    Ok(h) => h,
                    Err(v) => {
                        rep.start_failure(prop, &sc, &v);
                        continue;
                    }
                };
                let mut x = idx;
                for _ in 0..l {
                    let letter = alpha[(x % n as u64) as usize];
                    x /= n as u64;
                    if let Some(op) = instantiate(letter, &h) {
                        h.exec(op);
                    }
                }
                rep.evaluations += 1;
                rep.add("exhaustive_histories", 1);
                if rep.samples.len() < 2 {
                    rep.samples.push(sample_of(&sc, &h));
                }
                collect(&mut rep, prop, &sc, &h);
            }
        }
        rep.set("exhaustive_depth", l as u64);
    }

    // ---- part 2: seeded random histories until the budget is used
    let mut i = 0u64;
    while Instant::now() < deadline && (args.max_evals == 0 || i < args.max_evals) {
        i += 1;
        let mut rng = master.fork(i);
        let hseed = rng.next();
        let mut frames = frame_counts(&mut rng, max_trees, matches!(prop, "C05" | "C09" | "C18"));
        let mut hopts = opts.clone();
        // every 10th history: many trees (beyond one cache line of tree entries, partial last tree); the
        // full comparison then runs after every 8th call only
        if rng.chance(1, 10) && !opts.crash {
            let t = rng.range(9, if cfg!(feature = "16K") || TREE_HUGE >= 8 { 19 } else { 37 });
            frames = t * TREE_FRAMES - *rng.pick(&[0usize, 0, 1, HUGE_FRAMES - 1, HUGE_FRAMES, HUGE_FRAMES + 1, TREE_FRAMES - 1, TREE_FRAMES / 2 + 65]);
            hopts.compare_every = 8;
            rep.add("random_histories_many_trees", 1);
        }
        let cfg = cfgs_for(prop, &mut rng);
        let init = if rng.chance(1, 4) { Init::AllocAll } else { Init::FreeAll };
        let sc = Scenario { frames, init, cfg, place: default_place(hseed) };
        let mut h = match Hist::start(sc.frames, sc.init, &sc.cfg, sc.place, hseed, hopts) {
            Ok(h) => h,
            Err(v) => {
                rep.start_failure(prop, &sc, &v);
                continue;
            }
        };
        let mut g = Gen::new(hseed, emph_for(prop));
        let len = if opts.crash { rng.range(30, 120) } else { rng.range(50, 400) };
        for _ in 0..len {
            if h.dead {
                break;
            }
            let op = g.next(&h);
            h.exec(op);
        }
        // conservation: everything still held can be freed, then all counts are those of FreeAll
        if rng.chance(1, 3) && !h.model.any_offline() {
            h.release_all();
        }
        rep.evaluations += 1;
        rep.add("random_histories", 1);
        if rep.samples.len() < 4 {
            rep.samples.push(sample_of(&sc, &h));
        }
        collect(&mut rep, prop, &sc, &h);
    }
    rep
}

/// Re-execute a recorded history (replay file)
pub fn replay(j: &J) -> Report {
    let prop = j.get("property").and_then(|p| p.as_str()).unwrap_or("C02").to_string();
    let mut rep = Report::new(&prop, "seq-replay");
    let frames = j.get("frames").and_then(|v| v.as_usize()).unwrap();
    let init = match j.get("init").and_then(|v| v.as_str()).unwrap() {
        "AllocAll" => Init::AllocAll,
        _ => Init::FreeAll,
    };
    let cfg = Cfg::by_name(j.get("cfg").and_then(|v| v.as_str()).unwrap(), j.get("slots").and_then(|v| v.as_usize()).unwrap_or(1));
    let place = match j.get("place").and_then(|v| v.as_str()).unwrap_or("End") {
        "Start" => Place::Start,
        "Heap" => Place::Heap,
        _ => Place::End,
    };
    let crash = j.get("crash").and_then(|v| v.as_bool()).unwrap_or(false);
    let opts = Opts { compare_every: 1, crash, crash_cap: 0 };
    let sc = Scenario { frames, init, cfg, place };
    let mut h = match Hist::start(frames, init, &sc.cfg, place, 1, opts) {
        Ok(h) => h,
        Err(v) => {
            rep.start_failure(&prop, &sc, &v);
            return rep;
        }
    };
    for o in j.get("ops").and_then(|v| v.as_arr()).unwrap() {
        let op = Op::from_json(o).expect("op");
        h.exec(op);
    }
    rep.evaluations = 1;
    collect(&mut rep, &prop, &sc, &h);
    let _ = BTreeSet::<u8>::new();
    rep
}
