//! E4 workloads for the memory-safety tools (C18): the same real allocator calls, sized for
//! AddressSanitizer / ThreadSanitizer / Miri / guard pages. The tools are the oracle; the monitors
//! here only make sure the workload really exercised the allocator (counts) and stay cheap.

use std::sync::atomic::{AtomicU8, AtomicU64, Ordering};
use std::time::{Duration, Instant};

use llfree::{Alloc, Error, FrameId, HUGE_FRAMES, HUGE_ORDER, Init, LLFree, MetaData, TREE_FRAMES, TREE_ORDER};

use crate::bufs::{Place, catch, default_place};
use crate::cfgs::Cfg;
use crate::generator::{Emph, Gen};
use crate::hist::{Hist, Opts};
use crate::json::J;
use crate::model::{Block, Model};
use crate::rng::Rng;
use crate::sut::Sut;
use crate::{Args, Report};

fn viol(rep: &mut Report, prop: &str, msg: String) {
    rep.violation(prop, &msg.clone(), || J::obj().with("engine", "mem").with("property", prop).with("message", msg));
}

// ---------------------------------------------------------------------------------------------
// Free-running threads (no token): delays injected at the hook, atomic ownership tags

thread_local! {
    static DELAY: std::cell::Cell<(u64, u32)> = const { std::cell::Cell::new((0, 0)) };
}

struct DelaySink;
impl crate::hooks::Sink for DelaySink {
    fn on_access(&mut self, _k: u8, _a: usize, _s: usize, _l: &'static std::panic::Location<'static>) {
        let (mut x, p) = DELAY.with(|d| d.get());
        x ^= x << 13;
        x ^= x >> 7;
        x ^= x << 17;
        DELAY.with(|d| d.set((x, p)));
        if p > 0 && (x % 1000) < p as u64 {
            if x % 7 == 0 {
                std::thread::yield_now();
            } else {
                for _ in 0..(x >> 20) % 200 {
                    std::hint::spin_loop();
                }
            }
        }
    }
}

pub struct FreeOut {
    pub calls: u64,
    pub ok_gets: u64,
    pub viols: Vec<(&'static str, String)>,
}

/// `threads` threads hammer one allocator; every thread frees only blocks it holds.
/// Ownership is tracked by one atomic tag per frame (0 = not handed out).
pub fn free_run(seed: u64, threads: usize, iters: usize, trees: usize, delay_permille: u32, cfg: &Cfg, place: Place, small_only: bool) -> FreeOut {
    let mut out = FreeOut { calls: 0, ok_gets: 0, viols: Vec::new() };
    let mut rng = Rng::new(seed);
    let frames = trees * TREE_FRAMES - if rng.chance(1, 4) { rng.below(HUGE_FRAMES) } else { 0 };
    let s = match Sut::new(frames, if rng.chance(1, 3) { Init::AllocAll } else { Init::FreeAll }, cfg, place) {
        Ok(s) => s,
        Err(e) => {
            out.viols.push(("C09", format!("construction failed: {e:?}")));
            return out;
        }
    };
    let a = s.a();
    // AllocAll start: free a part so that there is something to allocate, keep the rest held by nobody
    let alloc_all = a.stats().free_frames == 0 && frames > 0;
    let tags: Vec<AtomicU8> = (0..frames).map(|_| AtomicU8::new(0)).collect();
    let mut initial: Vec<Vec<Block>> = vec![Vec::new(); threads];
    if alloc_all {
        for (i, b) in Model::alloc_all_blocks(frames).into_iter().enumerate() {
            for f in b.frame..b.end() {
                tags[f].store(1 + (i % threads) as u8, Ordering::Relaxed);
            }
            initial[i % threads].push(b);
        }
    }
    let calls = AtomicU64::new(0);
    let ok_gets = AtomicU64::new(0);
    let viols = std::sync::Mutex::new(Vec::new());
    let orders: Vec<usize> = if small_only { vec![0, 0, 1, 2, 7, 8, HUGE_ORDER] } else { vec![0, 0, 0, 1, 2, 3, 4, 5, 6, 7, 8, HUGE_ORDER, (HUGE_ORDER + 1).min(TREE_ORDER)] };
    std::thread::scope(|sc| {
        for t in 0..threads {
            let mut held = std::mem::take(&mut initial[t]);
            let (tags, calls, ok_gets, viols, orders) = (&tags, &calls, &ok_gets, &viols, &orders);
            let mut rng = Rng::new(seed ^ (t as u64 + 1).wrapping_mul(0x9e37_79b9));
            sc.spawn(move || {
                DELAY.with(|d| d.set((seed | 1, delay_permille)));
                let mut sink = DelaySink;
                let me = 1 + t as u8;
                crate::hooks::with_sink(&mut sink, || {
                    for _ in 0..iters {
                        calls.fetch_add(1, Ordering::Relaxed);
                        let class = cfg.classes[rng.below(cfg.classes.len())].0;
                        let n = cfg.slot_count(class).unwrap_or(0);
                        let slot = if n == 0 || rng.chance(1, 5) { None } else { Some(if rng.chance(1, 2) { 0 } else { t % n }) };
                        match rng.below(22) {
                            20 | 21 => {
                                // queries are valid calls too (their results are not judged under concurrency;
                                // what matters here is that the sanitizers / Miri see them race with get/put)
                                let f = FrameId(rng.below(frames.max(1)));
                                let r = catch(|| match rng.below(6) {
                                    0 => a.stats().free_frames,
                                    1 => a.tree_stats().free_frames,
                                    2 => a.stats_at(f, 0).free_frames,
                                    3 => a.stats_at(FrameId(f.0 / HUGE_FRAMES * HUGE_FRAMES), HUGE_ORDER).free_frames,
                                    4 => a.stats_at(FrameId(f.0 / TREE_FRAMES * TREE_FRAMES), TREE_ORDER).free_frames,
                                    _ => if (f.0 & !7) + 8 <= frames { a.lower.is_free(FrameId(f.0 & !7), 3) as usize } else { a.lower.is_free(f, 0) as usize },
                                });
                                if let Err(p) = r {
                                    viols.lock().unwrap().push(("C03", format!("free-running: statistics query panicked: {p}")));
                                    return;
                                }
                            }
                            0..=9 => {
                                let order = *rng.pick(orders);
                                if (1usize << order) > frames {
                                    continue;
                                }
                                let target = if rng.chance(1, 8) { Some(FrameId(rng.below(frames >> order) << order)) } else { None };
                                match catch(|| a.get(target, cfg.request(order, class, slot))) {
                                    Ok(Ok((f, got))) => {
                                        ok_gets.fetch_add(1, Ordering::Relaxed);
                                        let b = Block { frame: f.0, order };
                                        if !cfg.class_permitted(class, got.0, order) {
                                            viols.lock().unwrap().push(("C13", format!("free-running: requested class {class}, allocation of order {order} reports class {}, which the policy rates neither match nor stealable", got.0)));
                                        }
                                        if b.end() > frames || f.0 % b.len() != 0 {
                                            viols.lock().unwrap().push(("C01", format!("free-running: get returned frame {} order {order} misaligned / out of range", f.0)));
                                            return;
                                        }
                                        for x in b.frame..b.end() {
                                            let old = tags[x].swap(me, Ordering::AcqRel);
                                            if old != 0 {
                                                viols.lock().unwrap().push(("C01", format!("free-running: frame {x} of block (frame {}, order {order}) returned to thread {t} is still held by thread {}", f.0, old - 1)));
                                                return;
                                            }
                                        }
                                        held.push(b);
                                    }
                                    Ok(Err(Error::Memory)) => {}
                                    Ok(Err(e)) => viols.lock().unwrap().push(("C03", format!("free-running: valid get failed with {e:?}"))),
                                    Err(p) => {
                                        viols.lock().unwrap().push(("C03", format!("free-running: get panicked: {p}")));
                                        return;
                                    }
                                }
                            }
                            10..=17 => {
                                if held.is_empty() {
                                    continue;
                                }
                                let b = held.swap_remove(rng.below(held.len()));
                                // the free starts: the frames leave the ownership map
                                for x in b.frame..b.end() {
                                    tags[x].store(0, Ordering::Release);
                                }
                                match catch(|| a.put(FrameId(b.frame), cfg.request(b.order, class, slot))) {
                                    Ok(Ok(())) => {}
                                    Ok(Err(e)) => viols.lock().unwrap().push(("C03", format!("free-running: put of held block {b:?} failed with {e:?}"))),
                                    Err(p) => {
                                        viols.lock().unwrap().push(("C03", format!("free-running: put of held block {b:?} panicked: {p}")));
                                        return;
                                    }
                                }
                            }
                            _ => {
                                if let Err(p) = catch(|| a.drain()) {
                                    viols.lock().unwrap().push(("C03", format!("free-running: drain panicked: {p}")));
                                    return;
                                }
                            }
                        }
                    }
                });
            });
        }
    });
    out.calls = calls.load(Ordering::Relaxed);
    out.ok_gets = ok_gets.load(Ordering::Relaxed);
    out.viols = viols.into_inner().unwrap();
    // quiescent: the tag map is the allocation state
    if out.viols.is_empty() {
        let mut m = Model::new_free(frames);
        for f in 0..frames {
            m.alloc[f] = tags[f].load(Ordering::Acquire) != 0;
        }
        let st = a.stats();
        if st.free_frames != m.free_frames() {
            out.viols.push(("C04", format!("free-running, quiescent: stats().free_frames {} != frames not held {}", st.free_frames, m.free_frames())));
        }
        for f in 0..frames {
            if (a.stats_at(FrameId(f), 0).free_frames == 1) == m.alloc[f] {
                out.viols.push(("C04", format!("free-running, quiescent: frame {f} reported free={} but held={}", !m.alloc[f], m.alloc[f])));
                break;
            }
        }
        if a.tree_stats().free_frames != st.free_frames {
            out.viols.push(("C04", format!("free-running, quiescent: fast free {} != exact {}", a.tree_stats().free_frames, st.free_frames)));
        }
        if let Err(p) = catch(|| a.validate()) {
            out.viols.push(("C04", format!("free-running, quiescent: validate(): {p}")));
        }
    }
    out
}

pub fn run_free(args: &Args) -> Report {
    let prop = args.prop.as_str();
    let mut rep = Report::new(prop, "free");
    let deadline = Instant::now() + Duration::from_millis(args.budget_ms);
    let mut master = Rng::new(args.seed.wrapping_mul(0x51).wrapping_add(args.shard as u64));
    let iters: usize = args.extra.get("iters").map(|s| s.parse().unwrap()).unwrap_or(2000);
    let max_runs: u64 = args.max_evals;
    let small_only = args.extra.contains_key("no-narrow");
    let mut i = 0u64;
    while Instant::now() < deadline && (max_runs == 0 || i < max_runs) {
        i += 1;
        let seed = master.next();
        let mut rng = Rng::new(seed);
        let threads = rng.range(2, 5);
        let trees = rng.range(1, 4);
        let cfg = Cfg::by_name(*rng.pick(&["simple", "movable", "zeroed", "zeroslot", "mixedslot2"]), rng.range(1, 3));
        let delay = *rng.pick(&[0u32, 5, 50, 300]);
        let out = free_run(seed, threads, iters, trees, delay, &cfg, default_place(seed), small_only);
        rep.evaluations += 1;
        rep.calls += out.calls;
        rep.add("ok_gets", out.ok_gets);
        rep.states.insert(seed);
        if rep.samples.len() < 3 {
            rep.samples.push(J::obj().with("threads", threads).with("trees", trees).with("cfg", cfg.name).with("calls", out.calls).with("delay_permille", delay as u64));
        }
        for (p, m) in out.viols {
            if p == prop || (prop == "C18" && false) {
                viol(&mut rep, prop, m);
            } else {
                rep.other(&crate::oracle::Viol { props: match p {
                    "C01" => &["C01"],
                    "C03" => &["C03"],
                    "C04" => &["C04"],
                    "C13" => &["C13"],
                    _ => &["C09"],
                }, msg: m });
            }
        }
    }
    rep
}

// ---------------------------------------------------------------------------------------------
// Small deterministic programs for Miri (also run under ASan and natively)

/// prog 0: initialisation (FreeAll / AllocAll / Recover / None) over a grid of frame counts, own exact-size
///         buffers and the repository's `MetaData::alloc` (empty buffers for zero-slot classings)
/// prog 1: one short random history (all op kinds) on <= 2 trees
/// prog 2: invalid metadata buffers (short, misaligned, overlapping, empty)
/// prog 3: 2-3 threads free-running on one small allocator
pub fn run_mem(args: &Args) -> Report {
    let mut rep = Report::new("C18", "mem");
    let prog: usize = args.extra.get("prog").map(|s| s.parse().unwrap()).unwrap_or(0);
    let seed = args.seed.wrapping_mul(31).wrapping_add(args.shard as u64);
    let mut rng = Rng::new(seed);
    let place = default_place(seed);
    match prog {
        0 => {
            let grid: Vec<usize> = {
                let mut g = vec![0usize, 1, 2, 63, 64, 65, HUGE_FRAMES - 1, HUGE_FRAMES, HUGE_FRAMES + 1, 2 * HUGE_FRAMES + 65, TREE_FRAMES - 1, TREE_FRAMES, TREE_FRAMES + 1];
                for _ in 0..6 {
                    g.push(rng.below(2 * TREE_FRAMES + 66));
                }
                g
            };
            let mine: Vec<usize> = grid.into_iter().enumerate().filter(|(i, _)| i % args.shards == args.shard).map(|(_, f)| f).collect();
            for frames in mine {
                for cname in ["simple", "zeroslot"] {
                    let cfg = Cfg::by_name(cname, 1);
                    let classing = cfg.classing();
                    for init in [Init::FreeAll, Init::AllocAll] {
                        // (a) the repository's own allocation helper (used by its tools and tests)
                        let ms = LLFree::metadata_size(&classing, frames);
                        let meta = MetaData::alloc(&ms);
                        match catch(|| LLFree::new(frames, init, &classing, meta).map(|a| (a.stats().free_frames, a.frames()))) {
                            Ok(Ok(_)) => {}
                            r => viol(&mut rep, "C18", format!("MetaData::alloc + LLFree::new(frames={frames}, {cname}) -> {r:?}")),
                        }
                        // (b) exact-size buffers, a few calls, recover and assume-initialised rebuild
                        match Sut::new(frames, init, &cfg, place) {
                            Ok(mut s) => {
                                rep.evaluations += 1;
                                let c0 = cfg.classes[0].0;
                                let slot = cfg.slot_count(c0).filter(|n| *n > 0).map(|_| 0);
                                let mut got = Vec::new();
                                for o in [0usize, 0, 3, 6, 7, HUGE_ORDER] {
                                    if let Ok((f, _)) = s.a().get(None, cfg.request(o, c0, slot)) {
                                        got.push((f, o));
                                    }
                                    rep.calls += 1;
                                }
                                if init == Init::AllocAll && frames > 0 {
                                    let _ = s.a().put(FrameId(0), cfg.request(0, c0, None));
                                }
                                let _ = s.a().stats();
                                let _ = s.a().tree_stats();
                                s.a().drain();
                                for (f, o) in got {
                                    let _ = s.a().put(f, cfg.request(o, c0, None));
                                    rep.calls += 1;
                                }
                                for mode in [Init::None, Init::Recover] {
                                    if let Err(e) = s.reinit(mode) {
                                        viol(&mut rep, "C18", format!("re-initialisation {} with frames={frames}: {e:?}", crate::sut::init_name(mode)));
                                        break;
                                    }
                                    let _ = s.a().get(None, cfg.request(0, c0, slot));
                                    let _ = s.a().stats();
                                }
                            }
                            Err(e) => viol(&mut rep, "C18", format!("construction frames={frames} {cname}: {e:?}")),
                        }
                    }
                }
                rep.states.insert(frames as u64);
            }
        }
        1 => {
            let n = args.max_evals.max(1);
            for i in 0..n {
                let hseed = rng.next();
                let frames = *rng.pick(&[HUGE_FRAMES + 65, TREE_FRAMES, TREE_FRAMES + HUGE_FRAMES + 1, 2 * TREE_FRAMES, 513, 64]);
                let cfg = Cfg::by_name(*rng.pick(&["simple", "movable", "zeroed", "zeroslot", "mixedslot"]), 1);
                let init = if rng.chance(1, 3) { Init::AllocAll } else { Init::FreeAll };
                let light = Opts { compare_every: args.extra.get("compare-every").map(|s| s.parse().unwrap()).unwrap_or(16), ..Opts::default() };
                match Hist::start(frames, init, &cfg, place, hseed, light) {
                    Ok(mut h) => {
                        let mut g = Gen::new(hseed, Emph::Wild);
                        let len = args.extra.get("len").map(|s| s.parse().unwrap()).unwrap_or(120);
                        for _ in 0..len {
                            if h.dead {
                                break;
                            }
                            let op = g.next(&h);
                            h.exec(op);
                        }
                        rep.evaluations += 1;
                        rep.calls += h.st.calls;
                        rep.states.insert(hseed ^ i);
                        for v in &h.viols {
                            rep.other(v);
                        }
                    }
                    Err(v) => rep.other(&v),
                }
            }
        }
        2 => {
            let n = args.max_evals.max(1);
            for _ in 0..n {
                let c = crate::special::c08_buffers(&mut rep, &mut rng, if cfg!(miri) { Place::Heap } else { place });
                rep.evaluations += c;
                rep.calls += c;
                rep.states.insert(rng.next());
            }
            // violations of C08 recorded by the helper are not C18's to report
            let vs = std::mem::take(&mut rep.violations);
            for v in vs {
                rep.other(&crate::oracle::Viol { props: &["C08"], msg: v.get("message").and_then(|m| m.as_str()).unwrap_or("").to_string() });
            }
        }
        _ => {
            let n = args.max_evals.max(1);
            let iters: usize = args.extra.get("iters").map(|s| s.parse().unwrap()).unwrap_or(60);
            for _ in 0..n {
                let s = rng.next();
                let cfg = Cfg::by_name(*rng.pick(&["simple", "zeroed", "zeroslot"]), 1);
                let out = free_run(s, rng.range(2, 4), iters, 1, 0, &cfg, place, args.extra.contains_key("no-narrow"));
                rep.evaluations += 1;
                rep.calls += out.calls;
                rep.states.insert(s);
                for (p, m) in out.viols {
                    rep.other(&crate::oracle::Viol { props: if p == "C01" { &["C01"] } else if p == "C04" { &["C04"] } else { &["C03"] }, msg: m });
                }
            }
        }
    }
    rep.samples.push(J::obj().with("prog", prog).with("seed", seed).with("evaluations", rep.evaluations).with("calls", rep.calls));
    rep
}


// ---------------------------------------------------------------------------------------------
// Metadata-size boundary grid (C18): exact-size buffers flush against guard pages for the frame
// counts at which any of the three metadata sizes steps, and around the geometric boundaries

/// Frame counts of this shard: steps of `LLFree::metadata_size` (as the code under test computes it),
/// multiples of the huge-frame / tree / 16-tree sizes (+-1), and random counts, up to `max` frames
fn size_grid(args: &Args, cfgs: &[Cfg], max: usize, rng: &mut Rng) -> Vec<usize> {
    let mut v: std::collections::BTreeSet<usize> = std::collections::BTreeSet::new();
    for cfg in cfgs {
        let classing = cfg.classing();
        let mut prev = LLFree::metadata_size(&classing, 0);
        for f in 1..=max {
            let ms = LLFree::metadata_size(&classing, f);
            if ms.local != prev.local || ms.trees != prev.trees {
                v.extend([f - 1, f, f + 1]);
            }
            // the lower size steps with every huge frame: take every step near tree boundaries, a sample elsewhere
            if ms.lower != prev.lower {
                v.extend([f - 1, f]);
            }
            prev = ms;
        }
    }
    let mut k = TREE_FRAMES;
    while k <= max {
        v.extend([k - 1, k, k + 1]);
        k += TREE_FRAMES;
    }
    let mut k = 16 * TREE_FRAMES;
    while k <= max {
        v.extend([k - HUGE_FRAMES, k + HUGE_FRAMES, k + TREE_FRAMES - 1, k + TREE_FRAMES + 1, k + 1 + rng.below(TREE_FRAMES - 1)]);
        k += 16 * TREE_FRAMES;
    }
    for _ in 0..64 {
        v.insert(1 + rng.below(max));
    }
    v.into_iter().filter(|f| *f >= 1 && *f <= max).enumerate().filter(|(i, _)| i % args.shards == args.shard).map(|(_, f)| f).collect()
}

pub fn run_sizes(args: &Args) -> Report {
    let mut rep = Report::new("C18", "sizes");
    let deadline = Instant::now() + Duration::from_millis(args.budget_ms);
    let mut rng = Rng::new(args.seed.wrapping_mul(977).wrapping_add(args.shard as u64));
    // up to 34 trees (two steps of the 16-entry cache line of tree entries)
    let max = if cfg!(feature = "16K") || cfg!(miri) { 18 * TREE_FRAMES } else { 34 * TREE_FRAMES + HUGE_FRAMES };
    let cfgs = [Cfg::by_name("simple", 1), Cfg::by_name("mixedslot2", 2), Cfg::by_name("zeroslot", 1)];
    let mut grid = size_grid(args, &cfgs, max, &mut rng);
    // largest first: the far boundaries are the ones no other workload reaches
    grid.reverse();
    let planned = grid.len();
    let mut done = 0u64;
    let mut i = 0usize;
    loop {
        if Instant::now() > deadline || (args.max_evals > 0 && done >= args.max_evals) {
            break;
        }
        // the boundary grid with every classing, then random counts until the budget is used
        let frames = if i / cfgs.len() < grid.len() { grid[i / cfgs.len()] } else { 1 + rng.below(max) };
        i += 1;
        let cfg = &cfgs[i % cfgs.len()];
        let place = default_place(i as u64 + args.seed);
        crate::bufs::set_scenario(2, frames as u64, i as u64);
        let init = if i % 3 == 0 { Init::AllocAll } else { Init::FreeAll };
        let mut s = match Sut::new(frames, init, cfg, place) {
            Ok(s) => s,
            Err(e) => {
                viol(&mut rep, "C18", format!("construction frames={frames} {}: {e:?}", cfg.name));
                continue;
            }
        };
        let trees = frames.div_ceil(TREE_FRAMES);
        let touch = |s: &Sut, rep: &mut Report, rng: &mut Rng| {
            let a = s.a();
            let _ = a.stats();
            let _ = a.tree_stats();
            let _ = catch(|| a.validate());
            // the last frames / huge frame / tree, and the first
            for f in [0usize, frames - 1, frames.saturating_sub(HUGE_FRAMES), (trees - 1) * TREE_FRAMES] {
                let _ = a.stats_at(FrameId(f), 0);
                let _ = a.stats_at(FrameId(f / HUGE_FRAMES * HUGE_FRAMES), HUGE_ORDER);
                let _ = a.stats_at(FrameId(f / TREE_FRAMES * TREE_FRAMES), TREE_ORDER);
                let _ = a.lower.is_free(FrameId(f), 0);
            }
            let _ = a.trees.stats_at(llfree::TreeId(trees - 1));
            // calls that land in the last tree / last huge frame, through every slot of every class
            for (c, n) in s.cfg.classes.clone() {
                for slot in (0..n).map(Some).chain([None]) {
                    for (f, o) in [(frames - 1, 0usize), ((trees - 1) * TREE_FRAMES, 0), (frames.saturating_sub(1) / HUGE_FRAMES * HUGE_FRAMES, 0)] {
                        let req = s.cfg.request(o, c, slot);
                        match a.get(Some(FrameId(f)), req) {
                            Ok(_) => {
                                let _ = a.put(FrameId(f), req);
                            }
                            Err(_) => {
                                if a.put(FrameId(f), req).is_ok() {
                                    let _ = a.get(Some(FrameId(f)), req);
                                }
                            }
                        }
                        rep.calls += 2;
                    }
                    let req = s.cfg.request(*rng.pick(&[0usize, 6, HUGE_ORDER]), c, slot);
                    if let Ok((f, _)) = a.get(None, req) {
                        let _ = a.put(f, req);
                    }
                    rep.calls += 2;
                }
            }
            // tree changes naming the last tree, a drain
            let m = llfree::TreeMatch { id: Some(llfree::TreeId(trees - 1)), class: None, free: 0 };
            let _ = a.change_tree(m, llfree::TreeChange { class: Some(llfree::Class(s.cfg.classes[0].0)), operation: None });
            a.drain();
            let _ = a.tree_stats();
        };
        touch(&s, &mut rep, &mut rng);
        for mode in [Init::None, Init::Recover] {
            if let Err(e) = s.reinit(mode) {
                viol(&mut rep, "C18", format!("re-initialisation {} with frames={frames}: {e:?}", crate::sut::init_name(mode)));
                break;
            }
            touch(&s, &mut rep, &mut rng);
        }
        rep.evaluations += 1;
        done += 1;
        rep.states.insert(frames as u64 ^ ((i % cfgs.len()) as u64) << 40);
        if rep.samples.len() < 3 {
            let ms = LLFree::metadata_size(&cfg.classing(), frames);
            rep.samples.push(J::obj().with("frames", frames).with("cfg", cfg.name).with("local_bytes", ms.local).with("trees_bytes", ms.trees).with("lower_bytes", ms.lower));
        }
    }
    rep.add("size_grid_counts_planned", (planned * cfgs.len()) as u64);
    rep.add("size_grid_counts_done", done.min((planned * cfgs.len()) as u64));
    rep.add("random_counts_done", done.saturating_sub((planned * cfgs.len()) as u64));
    rep
}
