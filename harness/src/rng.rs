//! Small deterministic PRNG (splitmix64 / xorshift), independent of the code under test.

#[derive(Clone, Debug)]
pub struct Rng(pub u64);

impl Rng {
    pub fn new(seed: u64) -> Self {
        let mut r = Rng(seed ^ 0x9e37_79b9_7f4a_7c15);
        r.next();
        r.next();
        r
    }
    /// Derive an independent stream
    pub fn fork(&mut self, tag: u64) -> Rng {
        Rng::new(self.next() ^ tag.wrapping_mul(0xd6e8_feb8_6659_fd93))
    }
    pub fn next(&mut self) -> u64 {
        self.0 = self.0.wrapping_add(0x9e37_79b9_7f4a_7c15);
        let mut z = self.0;
        z = (z ^ (z >> 30)).wrapping_mul(0xbf58_476d_1ce4_e5b9);
        z = (z ^ (z >> 27)).wrapping_mul(0x94d0_49bb_1331_11eb);
        z ^ (z >> 31)
    }
    /// Uniform in 0..n (n > 0)
    pub fn below(&mut self, n: usize) -> usize {
        debug_assert!(n > 0);
        ((self.next() >> 11) % n as u64) as usize
    }
    pub fn range(&mut self, lo: usize, hi: usize) -> usize {
        lo + self.below(hi - lo)
    }
    pub fn chance(&mut self, num: usize, den: usize) -> bool {
        self.below(den) < num
    }
    pub fn pick<'a, T>(&mut self, xs: &'a [T]) -> &'a T {
        &xs[self.below(xs.len())]
    }
    /// Weighted choice: returns index
    pub fn weighted(&mut self, w: &[usize]) -> usize {
        let total: usize = w.iter().sum();
        let mut x = self.below(total.max(1));
        for (i, &wi) in w.iter().enumerate() {
            if x < wi {
                return i;
            }
            x -= wi;
        }
        w.len() - 1
    }
    pub fn shuffle<T>(&mut self, xs: &mut [T]) {
        for i in (1..xs.len()).rev() {
            let j = self.below(i + 1);
            xs.swap(i, j);
        }
    }
}

pub fn hash64(mut h: u64, v: u64) -> u64 {
    h ^= v.wrapping_add(0x9e37_79b9_7f4a_7c15).wrapping_add(h << 6).wrapping_add(h >> 2);
    h = (h ^ (h >> 30)).wrapping_mul(0xbf58_476d_1ce4_e5b9);
    h ^ (h >> 27)
}
