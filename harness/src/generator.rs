//! Workload generators for sequential histories: an abstract alphabet that is instantiated
//! against the current model state (seeded random, and bounded-exhaustive enumeration).

use llfree::{HUGE_FRAMES, HUGE_ORDER, TREE_FRAMES, TREE_ORDER};

use crate::hist::Hist;
use crate::model::{Block, Model};
use crate::ops::Op;
use crate::rng::Rng;

/// Emphasis of a random history (each property's check uses the families aimed at it).
#[derive(Clone, Copy, Debug, PartialEq, Eq)]
pub enum Emph {
    /// balanced mix, emphasis on partial / invalid frees (C02)
    Frees,
    /// counter motion: frees through other slots / without slot, exhaustion, drains (C04, C14)
    Counters,
    /// dense in tree changes (C15)
    Trees,
    /// drains followed by probing allocations (C10)
    Drains,
    /// everything incl. re-initialisation and out-of-range tree ids (C09)
    Wild,
    /// stealing / demotion pressure (C13)
    Classes,
}

pub struct Gen {
    pub rng: Rng,
    pub emph: Emph,
    /// current phase: true = filling memory, false = emptying
    filling: bool,
    phase_left: usize,
    pub allow_reinit: bool,
    /// burst: repeat the same request / the same kind of free several times
    burst: Option<(Burst, usize)>,
}

#[derive(Clone, Copy, Debug)]
enum Burst {
    Get { order: usize, class: u8, slot: Option<usize> },
    /// free held blocks newest-first with a fixed slot choice (true = without slot)
    Put { no_slot: bool },
}

pub fn orders_for(frames: usize) -> Vec<usize> {
    let mut v = vec![0, 1, 2, 3, 4, 5, 6, 7, 8];
    for o in [HUGE_ORDER - 1, HUGE_ORDER, HUGE_ORDER + 1, TREE_ORDER] {
        if !v.contains(&o) {
            v.push(o);
        }
    }
    v.retain(|&o| o <= TREE_ORDER && (1usize << o) <= frames.max(1));
    v
}

impl Gen {
    pub fn new(seed: u64, emph: Emph) -> Gen {
        let mut rng = Rng::new(seed);
        let filling = rng.chance(1, 2);
        Gen { rng, emph, filling, phase_left: 0, allow_reinit: emph == Emph::Wild, burst: None }
    }

    fn pick_order(&mut self, frames: usize) -> usize {
        let os = orders_for(frames);
        let w: Vec<usize> = os
            .iter()
            .map(|&o| match o {
                0 => 30,
                o if o == HUGE_ORDER => 12,
                o if o == TREE_ORDER => 3,
                o if o > HUGE_ORDER => 5,
                6 | 7 | 8 => 6,
                3 => 6,
                _ => 4,
            })
            .collect();
        os[self.rng.weighted(&w)]
    }

    fn pick_class_slot(&mut self, h: &Hist) -> (u8, Option<usize>) {
        let classes = &h.cfg().classes;
        let (c, n) = classes[self.rng.below(classes.len())];
        let slot = if n == 0 || self.rng.chance(1, 6) { None } else { Some(self.rng.below(n)) };
        (c, slot)
    }

    /// A free aligned block of `order` (scan from a random start), if any
    fn find_free(&mut self, m: &Model, order: usize, online: bool) -> Option<Block> {
        let n = 1usize << order;
        let cnt = m.frames / n;
        if cnt == 0 {
            return None;
        }
        let s = self.rng.below(cnt);
        for i in 0..cnt {
            let b = Block { frame: ((s + i) % cnt) * n, order };
            if m.block_free(b) && (!online || !m.block_offline(b)) {
                return Some(b);
            }
        }
        None
    }

    fn gen_get(&mut self, h: &Hist) -> Op {
        let order = self.pick_order(h.model.frames);
        let (class, slot) = self.pick_class_slot(h);
        Op::Get { order, class, slot }
    }

    fn gen_get_at(&mut self, h: &Hist) -> Op {
        let m = &h.model;
        let frames = m.frames;
        let (class, slot) = self.pick_class_slot(h);
        let order = self.pick_order(frames);
        let n = 1usize << order;
        let kind = self.rng.below(7);
        let frame = match kind {
            0 | 1 => self.find_free(m, order, false).map(|b| b.frame),
            2 => (!h.held.is_empty()).then(|| {
                let hb = h.held[self.rng.below(h.held.len())].b;
                hb.frame & !(n - 1)
            }),
            3 => (!h.held.is_empty()).then(|| {
                // parent of a held block: partially allocated if the buddy is free
                let hb = h.held[self.rng.below(h.held.len())].b;
                hb.frame & !(n - 1)
            }),
            4 => Some((frames / n).saturating_sub(1) * n),
            5 => {
                let off: Vec<usize> = (0..m.trees()).filter(|&t| m.offline[t]).collect();
                (!off.is_empty()).then(|| {
                    let t = *self.rng.pick(&off);
                    (t * TREE_FRAMES + self.rng.below(TREE_FRAMES)) & !(n - 1)
                })
            }
            _ => Some(self.rng.below((frames / n).max(1)) * n),
        };
        let frame = frame.unwrap_or(0);
        if frame + n > frames {
            return self.gen_get(h);
        }
        Op::GetAt { frame, order, class, slot }
    }

    fn put_class_slot(&mut self, h: &Hist, held_class: Option<(u8, u8)>) -> (u8, Option<usize>) {
        let classes = &h.cfg().classes;
        let class = match (held_class, self.rng.below(10)) {
            (Some((c, _)), 0..=5) => c,
            (Some((_, r)), 6..=7) => r,
            _ => classes[self.rng.below(classes.len())].0,
        };
        let n = h.cfg().slot_count(class).unwrap_or(0);
        let none_w = match self.emph {
            Emph::Counters => 2,
            _ => 5,
        };
        let slot = if n == 0 || self.rng.chance(1, none_w) { None } else { Some(self.rng.below(n)) };
        (class, slot)
    }

    fn gen_put(&mut self, h: &Hist) -> Option<Op> {
        if h.held.is_empty() {
            return None;
        }
        let i = match self.rng.below(4) {
            0 => h.held.len() - 1,
            1 => 0,
            _ => self.rng.below(h.held.len()),
        };
        let hb = h.held[i];
        let (class, slot) = self.put_class_slot(h, Some((hb.class, hb.rclass)));
        Some(Op::Put { frame: hb.b.frame, order: hb.b.order, class, slot })
    }

    /// Free a sub-block (first / middle / last / random position) of a held block
    fn gen_put_part(&mut self, h: &Hist) -> Option<Op> {
        let cands: Vec<usize> = (0..h.held.len()).filter(|&i| h.held[i].b.order > 0).collect();
        if cands.is_empty() {
            return None;
        }
        // prefer large blocks (huge frames)
        let i = if self.rng.chance(1, 2) {
            *cands.iter().max_by_key(|&&i| (h.held[i].b.order, self.rng.below(1000))).unwrap()
        } else {
            *self.rng.pick(&cands)
        };
        let hb = h.held[i];
        let k = hb.b.order;
        let sub = match self.rng.below(6) {
            0 => 0,
            1 => k - 1,
            2 if k > HUGE_ORDER => HUGE_ORDER,
            3 if k >= HUGE_ORDER => self.rng.below(HUGE_ORDER),
            _ => self.rng.below(k),
        };
        let parts = 1usize << (k - sub);
        let pos = match self.rng.below(4) {
            0 => 0,
            1 => parts - 1,
            2 => parts / 2,
            _ => self.rng.below(parts),
        };
        let (class, slot) = self.put_class_slot(h, Some((hb.class, hb.rclass)));
        Some(Op::Put { frame: hb.b.frame + pos * (1 << sub), order: sub, class, slot })
    }

    /// A free that should be rejected (or is at least adversarial); the model judges it.
    fn gen_put_bad(&mut self, h: &Hist) -> Option<Op> {
        let m = &h.model;
        let (class, slot) = self.put_class_slot(h, None);
        let kind = self.rng.below(6);
        let b = match kind {
            // never allocated
            0 => {
                let o = self.pick_order(m.frames);
                self.find_free(m, o, false)
            }
            // double free
            1 => (!h.freed.is_empty()).then(|| *self.rng.pick(&h.freed)),
            // parent of a held block (half allocated if buddy is free)
            2 => (!h.held.is_empty()).then(|| {
                let hb = h.held[self.rng.below(h.held.len())].b;
                let o = (hb.order + 1).min(TREE_ORDER);
                Block { frame: hb.frame & !((1usize << o) - 1), order: o }
            }),
            // a huge frame at huge order that is not whole (e.g. allocated as small frames)
            3 => {
                let hs: Vec<usize> = (0..m.frames / HUGE_FRAMES).filter(|&x| !m.whole[x]).collect();
                (!hs.is_empty()).then(|| Block { frame: *self.rng.pick(&hs) * HUGE_FRAMES, order: HUGE_ORDER })
            }
            // held block at a smaller or larger order, shifted
            4 => (!h.held.is_empty()).then(|| {
                let hb = h.held[self.rng.below(h.held.len())].b;
                let o = self.pick_order(m.frames);
                Block { frame: hb.frame & !((1usize << o) - 1), order: o }
            }),
            // random aligned block
            _ => {
                let o = self.pick_order(m.frames);
                let n = 1usize << o;
                Some(Block { frame: self.rng.below((m.frames / n).max(1)) * n, order: o })
            }
        }?;
        if b.end() > m.frames {
            return None;
        }
        Some(Op::Put { frame: b.frame, order: b.order, class, slot })
    }

    fn gen_change(&mut self, h: &Hist) -> Op {
        let m = &h.model;
        let trees = m.trees();
        let classes = &h.cfg().classes;
        let rc = |r: &mut Rng| classes[r.below(classes.len())].0;
        let free_trees: Vec<usize> = (0..trees).filter(|&t| m.tree_entirely_free(t) && !m.offline[t]).collect();
        let off: Vec<usize> = (0..trees).filter(|&t| m.offline[t]).collect();
        match self.rng.below(10) {
            // offline an entirely free tree by id
            0 | 1 if !free_trees.is_empty() => {
                let t = *self.rng.pick(&free_trees);
                let mclass = if self.rng.chance(1, 3) { Some(rc(&mut self.rng)) } else { None };
                Op::Change { id: Some(t), mclass, mfree: if self.rng.chance(1, 2) { TREE_FRAMES } else { 0 }, nclass: None, op: 2 }
            }
            // offline any entirely free tree by match
            2 => {
                let mclass = if self.rng.chance(1, 2) { Some(rc(&mut self.rng)) } else { None };
                Op::Change { id: None, mclass, mfree: TREE_FRAMES, nclass: None, op: 2 }
            }
            // online an offline tree by id, possibly with a new class
            3 | 4 if !off.is_empty() => {
                let t = *self.rng.pick(&off);
                let nclass = if self.rng.chance(1, 2) { Some(rc(&mut self.rng)) } else { None };
                Op::Change { id: Some(t), mclass: None, mfree: 0, nclass, op: 1 }
            }
            // online by match (first tree with counter 0 of some class)
            5 => {
                let mclass = if self.rng.chance(1, 2) { Some(rc(&mut self.rng)) } else { None };
                let nclass = if self.rng.chance(1, 2) { Some(rc(&mut self.rng)) } else { None };
                Op::Change { id: None, mclass, mfree: 0, nclass, op: 1 }
            }
            // class change only, by id (any tree, also reserved ones and, for C09, non-existent ones)
            6 | 7 => {
                let hi = if self.emph == Emph::Wild { trees + 3 } else { trees };
                let t = self.rng.below(hi.max(1));
                let mclass = if self.rng.chance(1, 3) { Some(rc(&mut self.rng)) } else { None };
                let mfree = *self.rng.pick(&[0, 0, 1, TREE_FRAMES / 2, TREE_FRAMES]);
                Op::Change { id: Some(t), mclass, mfree, nclass: Some(rc(&mut self.rng)), op: 0 }
            }
            // class change by match
            8 => {
                let mfree = *self.rng.pick(&[0, 1, TREE_FRAMES / 2, TREE_FRAMES]);
                Op::Change { id: None, mclass: Some(rc(&mut self.rng)), mfree, nclass: Some(rc(&mut self.rng)), op: 0 }
            }
            // online by id of a tree that is not offline (must fail unless counter is 0), any id
            _ => {
                let hi = if self.emph == Emph::Wild { trees + 3 } else { trees };
                let t = self.rng.below(hi.max(1));
                let op = if t >= trees && self.rng.chance(1, 2) { 2 } else { 1 };
                Op::Change { id: Some(t), mclass: None, mfree: if op == 2 { TREE_FRAMES } else { 0 }, nclass: None, op }
            }
        }
    }

    /// Next operation for the history's current state.
    pub fn next(&mut self, h: &Hist) -> Op {
        // the call right after a drain is the one C10 judges: make it a probe most of the time
        if self.emph == Emph::Drains && h.after_drain && self.rng.chance(4, 5) {
            self.burst = None;
            if self.rng.chance(1, 2) {
                let (class, slot) = self.pick_class_slot(h);
                return Op::Get { order: 0, class, slot };
            }
            return self.gen_get_at(h);
        }
        if let Some((b, left)) = self.burst {
            self.burst = if left > 1 { Some((b, left - 1)) } else { None };
            match b {
                Burst::Get { order, class, slot } => return Op::Get { order, class, slot },
                Burst::Put { no_slot } => {
                    if let Some(hb) = h.held.last() {
                        let n = h.cfg().slot_count(hb.class).unwrap_or(0);
                        let slot = if no_slot || n == 0 { None } else { Some(0) };
                        return Op::Put { frame: hb.b.frame, order: hb.b.order, class: hb.class, slot };
                    }
                    self.burst = None;
                }
            }
        } else if self.rng.chance(1, 30) {
            let b = if self.rng.chance(1, 2) {
                let order = *self.rng.pick(&[0, 0, 6, HUGE_ORDER - 1, HUGE_ORDER, HUGE_ORDER, TREE_ORDER]);
                let order = if (1usize << order) <= h.model.frames { order } else { 0 };
                let (class, slot) = self.pick_class_slot(h);
                Burst::Get { order, class, slot }
            } else {
                Burst::Put { no_slot: self.rng.chance(2, 3) }
            };
            self.burst = Some((b, self.rng.range(2, 10)));
        }
        if self.phase_left == 0 {
            self.filling = !self.filling;
            self.phase_left = self.rng.range(10, 120);
        }
        self.phase_left -= 1;
        let free_frac = h.model.free_frames() * 100 / h.model.frames.max(1);
        if free_frac < 2 && self.rng.chance(1, 8) {
            self.filling = false;
        }
        if free_frac > 98 && self.rng.chance(1, 8) {
            self.filling = true;
        }
        // weights: get, get_at, put, put_part, put_bad, drain, change, reinit
        let mut w: [usize; 8] = if self.filling { [50, 10, 10, 5, 4, 4, 3, 0] } else { [12, 4, 48, 10, 5, 4, 3, 0] };
        match self.emph {
            Emph::Frees => {
                w[3] += 10;
                w[4] += 8;
            }
            Emph::Counters => {
                w[5] += 6;
            }
            Emph::Trees => {
                w[6] += 25;
                w[1] += 6;
            }
            Emph::Drains => {
                w[5] += 18;
                w[1] += 8;
            }
            Emph::Wild => {
                w[6] += 8;
                w[1] += 6;
            }
            Emph::Classes => {}
        }
        if self.allow_reinit {
            w[7] = 2;
        }
        for _ in 0..8 {
            let op = match self.rng.weighted(&w) {
                0 => Some(self.gen_get(h)),
                1 => Some(self.gen_get_at(h)),
                2 => self.gen_put(h),
                3 => self.gen_put_part(h),
                4 => self.gen_put_bad(h),
                5 => Some(Op::Drain),
                6 => Some(self.gen_change(h)),
                _ => Some(Op::Reinit(self.rng.below(2) as u8)),
            };
            if let Some(op) = op {
                return op;
            }
        }
        self.gen_get(h)
    }
}

// ---------------------------------------------------------------------------------------------
// Bounded-exhaustive enumeration over an abstract alphabet

/// Abstract letters, instantiated deterministically against the current state.
#[derive(Clone, Copy, Debug, PartialEq, Eq)]
pub enum Letter {
    /// untargeted allocation (order index into `orders`, class index, with slot 0 / without slot)
    G(usize, usize, bool),
    /// targeted allocation of the first free block of order / the newest held block / the last block in range
    GaFree(usize),
    GaHeld,
    GaLast(usize),
    /// free the newest / oldest held block through slot 0 / without slot
    PNew(bool),
    POld(bool),
    /// free the first / last base frame (or a middle order-6 part) of the largest held block
    PartFirst,
    PartLast,
    PartMid6,
    /// free the newest freed block again
    PDouble,
    /// free the parent of the newest held block
    PParent,
    /// newest held block's huge frame at huge order
    PHugeOfNew,
    D,
    /// offline first free tree by match / online tree 0.. by id / class change tree 0
    CtOffline,
    CtOnline(usize),
    CtClass(usize),
    Recover,
}

pub fn alphabet(frames: usize, n_classes: usize, deep: bool) -> Vec<Letter> {
    let mut a = vec![
        Letter::G(0, 0, true),
        Letter::G(0, 0, false),
        Letter::G(HUGE_ORDER, n_classes - 1, true),
        Letter::G(6, 0, true),
        Letter::G(7, 0, true),
        Letter::GaFree(0),
        Letter::GaHeld,
        Letter::PNew(true),
        Letter::POld(false),
        Letter::PartFirst,
        Letter::PartLast,
        Letter::PDouble,
        Letter::PParent,
        Letter::PHugeOfNew,
        Letter::D,
        Letter::CtOffline,
        Letter::CtOnline(0),
    ];
    if deep {
        a.extend([
            Letter::G(3, 0, true),
            Letter::G(8, 0, false),
            Letter::G(HUGE_ORDER + 1, n_classes - 1, false),
            Letter::G(0, n_classes - 1, true),
            Letter::GaFree(HUGE_ORDER),
            Letter::GaLast(0),
            Letter::PartMid6,
            Letter::PNew(false),
            Letter::CtClass(0),
            Letter::Recover,
        ]);
    }
    a.retain(|l| match l {
        Letter::G(o, _, _) | Letter::GaFree(o) | Letter::GaLast(o) => *o <= TREE_ORDER && (1usize << *o) <= frames,
        _ => true,
    });
    a
}

/// Instantiate a letter; `None` = not applicable in this state (history continues with the next letter)
pub fn instantiate(l: Letter, h: &Hist) -> Option<Op> {
    let cfg = h.cfg();
    let m = &h.model;
    let cls = |i: usize| cfg.classes[i.min(cfg.classes.len() - 1)];
    let slot_of = |c: (u8, usize), with: bool| if with && c.1 > 0 { Some(0) } else { None };
    let largest = || h.held.iter().max_by_key(|x| (x.b.order, usize::MAX - x.b.frame)).copied();
    match l {
        Letter::G(o, ci, with) => {
            let c = cls(ci);
            Some(Op::Get { order: o, class: c.0, slot: slot_of(c, with) })
        }
        Letter::GaFree(o) => {
            let n = 1usize << o;
            let b = (0..m.frames / n).map(|i| Block { frame: i * n, order: o }).find(|b| m.block_free(*b))?;
            let c = cls(0);
            Some(Op::GetAt { frame: b.frame, order: o, class: c.0, slot: slot_of(c, true) })
        }
        Letter::GaHeld => {
            let hb = h.held.last()?;
            let c = cls(0);
            Some(Op::GetAt { frame: hb.b.frame, order: hb.b.order, class: c.0, slot: slot_of(c, true) })
        }
        Letter::GaLast(o) => {
            let n = 1usize << o;
            let c = cls(0);
            Some(Op::GetAt { frame: (m.frames / n - 1) * n, order: o, class: c.0, slot: None })
        }
        Letter::PNew(with) => {
            let hb = h.held.last()?;
            let c = (hb.class, cfg.slot_count(hb.class).unwrap_or(0));
            Some(Op::Put { frame: hb.b.frame, order: hb.b.order, class: c.0, slot: slot_of(c, with) })
        }
        Letter::POld(with) => {
            let hb = h.held.first()?;
            let c = (hb.class, cfg.slot_count(hb.class).unwrap_or(0));
            Some(Op::Put { frame: hb.b.frame, order: hb.b.order, class: c.0, slot: slot_of(c, with) })
        }
        Letter::PartFirst => {
            let hb = largest()?;
            (hb.b.order > 0).then_some(Op::Put { frame: hb.b.frame, order: 0, class: cls(0).0, slot: None })
        }
        Letter::PartLast => {
            let hb = largest()?;
            (hb.b.order > 0).then_some(Op::Put { frame: hb.b.end() - 1, order: 0, class: cls(0).0, slot: slot_of(cls(0), true) })
        }
        Letter::PartMid6 => {
            let hb = largest()?;
            (hb.b.order > 7).then_some(Op::Put { frame: hb.b.frame + hb.b.len() / 2, order: 6, class: cls(0).0, slot: None })
        }
        Letter::PDouble => {
            let b = h.freed.last()?;
            Some(Op::Put { frame: b.frame, order: b.order, class: cls(0).0, slot: None })
        }
        Letter::PParent => {
            let hb = h.held.last()?;
            let o = hb.b.order + 1;
            if o > TREE_ORDER {
                return None;
            }
            let f = hb.b.frame & !((1usize << o) - 1);
            (f + (1 << o) <= m.frames).then_some(Op::Put { frame: f, order: o, class: cls(0).0, slot: None })
        }
        Letter::PHugeOfNew => {
            let hb = h.held.last()?;
            let f = hb.b.frame & !(HUGE_FRAMES - 1);
            (f + HUGE_FRAMES <= m.frames).then_some(Op::Put { frame: f, order: HUGE_ORDER, class: cls(0).0, slot: None })
        }
        Letter::D => Some(Op::Drain),
        Letter::CtOffline => Some(Op::Change { id: None, mclass: None, mfree: TREE_FRAMES, nclass: None, op: 2 }),
        Letter::CtOnline(t) => Some(Op::Change { id: Some(t), mclass: None, mfree: 0, nclass: Some(cls(0).0), op: 1 }),
        Letter::CtClass(t) => Some(Op::Change { id: Some(t), mclass: None, mfree: 0, nclass: Some(cls(1).0), op: 0 }),
        Letter::Recover => Some(Op::Reinit(0)),
    }
}
