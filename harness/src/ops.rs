//! Concrete operations of sequential histories (replayable).

use crate::json::J;

#[derive(Clone, Debug, PartialEq)]
pub enum Op {
    Get { order: usize, class: u8, slot: Option<usize> },
    GetAt { frame: usize, order: usize, class: u8, slot: Option<usize> },
    Put { frame: usize, order: usize, class: u8, slot: Option<usize> },
    Drain,
    /// op: 0 none, 1 online, 2 offline
    Change { id: Option<usize>, mclass: Option<u8>, mfree: usize, nclass: Option<u8>, op: u8 },
    /// 0 = Init::Recover, 1 = Init::None
    Reinit(u8),
}

impl Op {
    pub fn kind(&self) -> &'static str {
        match self {
            Op::Get { .. } => "get",
            Op::GetAt { .. } => "get_at",
            Op::Put { .. } => "put",
            Op::Drain => "drain",
            Op::Change { .. } => "change",
            Op::Reinit(0) => "recover",
            Op::Reinit(_) => "reinit_none",
        }
    }
    pub fn to_json(&self) -> J {
        match self {
            Op::Get { order, class, slot } => {
                J::obj().with("op", "get").with("order", *order).with("class", *class).with("slot", *slot)
            }
            Op::GetAt { frame, order, class, slot } => J::obj()
                .with("op", "get_at")
                .with("frame", *frame)
                .with("order", *order)
                .with("class", *class)
                .with("slot", *slot),
            Op::Put { frame, order, class, slot } => J::obj()
                .with("op", "put")
                .with("frame", *frame)
                .with("order", *order)
                .with("class", *class)
                .with("slot", *slot),
            Op::Drain => J::obj().with("op", "drain"),
            Op::Change { id, mclass, mfree, nclass, op } => J::obj()
                .with("op", "change")
                .with("id", *id)
                .with("mclass", *mclass)
                .with("mfree", *mfree)
                .with("nclass", *nclass)
                .with("tree_op", *op),
            Op::Reinit(m) => J::obj().with("op", "reinit").with("mode", *m),
        }
    }
    pub fn from_json(j: &J) -> Option<Op> {
        let g = |k: &str| j.get(k).and_then(|v| v.as_usize());
        let go = |k: &str| j.get(k).and_then(|v| v.as_usize());
        Some(match j.get("op")?.as_str()? {
            "get" => Op::Get { order: g("order")?, class: g("class")? as u8, slot: go("slot") },
            "get_at" => Op::GetAt { frame: g("frame")?, order: g("order")?, class: g("class")? as u8, slot: go("slot") },
            "put" => Op::Put { frame: g("frame")?, order: g("order")?, class: g("class")? as u8, slot: go("slot") },
            "drain" => Op::Drain,
            "change" => Op::Change {
                id: go("id"),
                mclass: go("mclass").map(|c| c as u8),
                mfree: g("mfree")?,
                nclass: go("nclass").map(|c| c as u8),
                op: g("tree_op")? as u8,
            },
            "reinit" => Op::Reinit(g("mode")? as u8),
            _ => return None,
        })
    }
    /// compact text form for samples
    pub fn short(&self) -> String {
        let s = |x: &Option<usize>| x.map(|v| v.to_string()).unwrap_or("-".into());
        match self {
            Op::Get { order, class, slot } => format!("G(o{order},c{class},s{})", s(slot)),
            Op::GetAt { frame, order, class, slot } => format!("GA({frame},o{order},c{class},s{})", s(slot)),
            Op::Put { frame, order, class, slot } => format!("P({frame},o{order},c{class},s{})", s(slot)),
            Op::Drain => "D".into(),
            Op::Change { id, mclass, mfree, nclass, op } => format!(
                "CT(id{},mc{},mf{mfree},nc{},{})",
                s(id),
                mclass.map(|c| c.to_string()).unwrap_or("-".into()),
                nclass.map(|c| c.to_string()).unwrap_or("-".into()),
                ["none", "online", "offline"][*op as usize]
            ),
            Op::Reinit(0) => "RECOVER".into(),
            Op::Reinit(_) => "REINIT_NONE".into(),
        }
    }
}
