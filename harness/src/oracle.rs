//! Comparison of the allocator's public queries against the reference model (quiescent points).

use llfree::{Alloc, FrameId, HUGE_FRAMES, HUGE_ORDER, LLFree, TREE_FRAMES, TREE_HUGE, TREE_ORDER};

use crate::bufs::catch;
use crate::model::Model;
use crate::rng::Rng;

/// One observed disagreement. `props` = the properties whose statement it contradicts.
#[derive(Clone, Debug)]
pub struct Viol {
    pub props: &'static [&'static str],
    pub msg: String,
}
pub fn viol(props: &'static [&'static str], msg: String) -> Viol {
    Viol { props, msg }
}

pub struct Snapshot {
    pub free: Vec<bool>,
}

/// Per-frame free status as reported by the allocator (`stats_at(f, 0)`).
pub fn frame_status(a: &LLFree, frames: usize) -> Vec<bool> {
    (0..frames).map(|f| a.stats_at(FrameId(f), 0).free_frames == 1).collect()
}

/// Full comparison. `exact_only` skips the fast-statistics / validate part (used when reservations
/// may legitimately be inconsistent, never in practice) .
pub fn compare(a: &LLFree, m: &Model, rng: &mut Rng, out: &mut Vec<Viol>) {
    let frames = m.frames;
    // --- per-frame status (C02 allocation status, C04 per-frame query)
    let mut bad = 0;
    for f in 0..frames {
        let s = a.stats_at(FrameId(f), 0);
        let free = s.free_frames == 1;
        if free == m.alloc[f] || s.free_frames > 1 {
            if bad < 3 {
                out.push(viol(
                    &["C02", "C04"],
                    format!("frame {f}: allocator reports free_frames={} but model says allocated={}", s.free_frames, m.alloc[f]),
                ));
            }
            bad += 1;
        }
    }
    // --- exact totals
    let s = a.stats();
    let (mf, mh, mt) = (m.free_frames(), m.free_huge(), m.free_trees());
    if s.free_frames != mf {
        out.push(viol(&["C04"], format!("stats().free_frames={} model={mf}", s.free_frames)));
    }
    if s.free_huge != mh {
        out.push(viol(&["C04"], format!("stats().free_huge={} model={mh}", s.free_huge)));
    }
    if s.free_trees != mt {
        out.push(viol(&["C04"], format!("stats().free_trees={} model={mt}", s.free_trees)));
    }
    // --- per huge frame
    for h in 0..m.huges() {
        let st = a.stats_at(FrameId(h * HUGE_FRAMES), HUGE_ORDER);
        let free = m.free_in(h * HUGE_FRAMES, HUGE_FRAMES);
        let full = (free == HUGE_FRAMES) as usize;
        if st.free_frames != free || st.free_huge != full {
            out.push(viol(
                &["C04"],
                format!("stats_at(huge {h}) = ({},{}) model=({free},{full})", st.free_frames, st.free_huge),
            ));
            break;
        }
    }
    // --- per tree (on tree_huge_1 the huge arm answers, nothing more to compare)
    if TREE_HUGE > 1 {
        for t in 0..m.trees() {
            let st = a.stats_at(FrameId(t * TREE_FRAMES), TREE_ORDER);
            let free = m.free_in(t * TREE_FRAMES, TREE_FRAMES);
            let huge = (0..TREE_HUGE)
                .filter(|i| m.free_in(t * TREE_FRAMES + i * HUGE_FRAMES, HUGE_FRAMES) == HUGE_FRAMES)
                .count();
            let full = (free == TREE_FRAMES) as usize;
            if st.free_frames != free || st.free_huge != huge || st.free_trees != full {
                out.push(viol(
                    &["C04"],
                    format!(
                        "stats_at(tree {t}) = ({},{},{}) model=({free},{huge},{full})",
                        st.free_frames, st.free_huge, st.free_trees
                    ),
                ));
                break;
            }
        }
    }
    // --- is_free on sampled aligned blocks of every order
    for order in 0..=TREE_ORDER {
        let n = 1usize << order;
        let cnt = frames / n;
        if cnt == 0 {
            continue;
        }
        for _ in 0..3 {
            let f = rng.below(cnt) * n;
            let b = crate::model::Block { frame: f, order };
            let got = a.lower.is_free(FrameId(f), order);
            let want = m.block_free(b);
            if got != want {
                out.push(viol(&["C04"], format!("is_free(frame {f}, order {order}) = {got} model={want}")));
            }
        }
    }
    // --- fast vs exact
    let ts = a.tree_stats();
    let want_fast = mf - m.free_offline();
    if ts.free_frames != want_fast {
        out.push(viol(
            &["C04"],
            format!("tree_stats().free_frames={} expected exact {mf} - offline {} = {want_fast}", ts.free_frames, m.free_offline()),
        ));
    }
    // --- the allocator's own validation
    if !m.any_offline() {
        if let Err(p) = catch(|| a.validate()) {
            out.push(viol(&["C04"], format!("validate() failed: {p}")));
        }
    }
}

/// C14: per-class statistics count every tree frame slot exactly once
pub fn compare_class_stats(a: &LLFree, m: &Model, out: &mut Vec<Viol>) {
    let ts = a.tree_stats();
    let total: usize = ts.classes.iter().map(|c| c.free_frames + c.alloc_frames).sum();
    let free: usize = ts.classes.iter().map(|c| c.free_frames).sum();
    let want = m.trees() * TREE_FRAMES;
    if total != want {
        out.push(viol(
            &["C14"],
            format!("sum over classes of free+alloc = {total}, expected trees*TREE_FRAMES = {want}"),
        ));
    }
    if free != ts.free_frames {
        out.push(viol(&["C14"], format!("sum of per-class free = {free}, fast total = {}", ts.free_frames)));
    }
}
