//! E5: unit-level differential monitors: rowmon (C23), sortmon (C16), lowermon (C12).
//! The compiled function under test runs next to a small obviously-correct reference.

use std::cell::RefCell;
use std::collections::BTreeSet;
use std::time::{Duration, Instant};

use llfree::util::{OrdBy, SortedBuffer};
use llfree::{
    Alloc, Class, Error, FrameId, HUGE_FRAMES, HUGE_ORDER, Init, Policy, TREE_FRAMES, TREE_HUGE, TREE_ORDER, TreeChange,
    TreeId, TreeMatch,
};

use crate::bufs::{catch, default_place};
use crate::cfgs::Cfg;
use crate::json::J;
use crate::rng::Rng;
use crate::sut::Sut;
use crate::{Args, Report};

// ---------------------------------------------------------------------------------------------
// C23 rowmon

/// Reference: lowest aligned all-zero block of 2^order bits, block by block.
fn ref_first_zeros(v: u64, order: usize) -> Option<(u64, usize)> {
    let n = 1usize << order;
    let mask = if n == 64 { u64::MAX } else { (1u64 << n) - 1 };
    let mut off = 0;
    while off < 64 {
        if (v >> off) & mask == 0 {
            return Some((v | (mask << off), off));
        }
        off += n;
    }
    None
}

struct RowMon<'a> {
    rep: &'a mut Report,
    classes: BTreeSet<(usize, usize, u32)>,
    evals: u64,
    structured: u64,
    fails: u64,
}
impl RowMon<'_> {
    #[inline]
    fn check(&mut self, v: u64, order: usize) {
        self.evals += 1;
        let got = llfree::verif::first_zeros_aligned(v, order);
        let want = ref_first_zeros(v, order);
        if got != want {
            self.fails += 1;
            let msg = format!("first_zeros_aligned({v:#018x}, {order}) = {got:x?}, block-by-block reference = {want:x?}");
            self.rep.violation("C23", &msg, || {
                J::obj().with("engine", "row").with("property", "C23").with("row", format!("{v:#x}")).with("order", order).with("message", msg.clone())
            });
        }
        if self.evals % 7 == 0 || v == 0 || v == u64::MAX {
            self.classes.insert((order, want.map(|w| w.1).unwrap_or(64), v.count_ones()));
        }
    }
    fn all_orders(&mut self, v: u64) {
        for o in 0..=6 {
            self.check(v, o);
        }
    }
}

/// Enumerate all rows built from `parts` copies of block patterns from `alpha` (each `bits` wide)
fn enum_blocks(m: &mut RowMon, order: usize, bits: usize, alpha: &[u64], shard: usize, shards: usize, deadline: Instant) -> bool {
    let parts = 64 / bits;
    let a = alpha.len() as u64;
    let total = a.checked_pow(parts as u32).expect("family too large");
    let mut idx = shard as u64;
    let mut n = 0u64;
    while idx < total {
        let mut x = idx;
        let mut v = 0u64;
        for p in 0..parts {
            v |= alpha[(x % a) as usize] << (p * bits);
            x /= a;
        }
        m.check(v, order);
        m.structured += 1;
        idx += shards as u64;
        n += 1;
        if n % (1 << 20) == 0 && Instant::now() > deadline {
            return false;
        }
    }
    true
}

pub fn run_row(args: &Args) -> Report {
    let mut rep = Report::new("C23", "row");
    let deadline = Instant::now() + Duration::from_millis(args.budget_ms);
    let mut rng = Rng::new(args.seed.wrapping_mul(77).wrapping_add(args.shard as u64));
    let thorough = args.tier_thorough;
    let mut complete = true;
    let mut samples = Vec::new();
    let (evals, structured, classes, fams);
    {
        let mut m = RowMon { rep: &mut rep, classes: BTreeSet::new(), evals: 0, structured: 0, fails: 0 };
        let mut families: Vec<String> = Vec::new();
        // (a1) rows with <= 3 set or <= 3 clear bits, all orders (shard 0 of each process does a slice)
        let mut cnt = 0u64;
        for i in 0..64 {
            for j in i..64 {
                for k in j..64 {
                    cnt += 1;
                    if cnt % args.shards as u64 != args.shard as u64 {
                        continue;
                    }
                    let v = (1u64 << i) | (1u64 << j) | (1u64 << k);
                    m.all_orders(v);
                    m.all_orders(!v);
                    m.structured += 14;
                }
            }
        }
        families.push("all rows with <=3 set bits or <=3 clear bits, orders 0..6".into());
        // (a2) trailing-ones prefixes combined with tails
        for ones in 0..=64u32 {
            let low = if ones == 64 { u64::MAX } else { (1u64 << ones) - 1 };
            for tail in [0u64, u64::MAX, 0xaaaa_aaaa_aaaa_aaaa, 0x5555_5555_5555_5555, 0x0101_0101_0101_0101, 0x8080_8080_8080_8080, rng.next()] {
                let v = low | if ones == 64 { 0 } else { tail << ones };
                m.all_orders(v);
                m.structured += 7;
            }
        }
        families.push("prefix of 0..64 ones followed by 7 tail patterns, orders 0..6".into());
        // (a3) per order: first i blocks non-free (pattern p), block i free, rest from {0, ones, random}
        for order in 0..=6usize {
            let n = 1usize << order;
            let blocks = 64 / n;
            let mask = if n == 64 { u64::MAX } else { (1u64 << n) - 1 };
            let mut pats = vec![mask, 1u64, 1u64 << (n - 1), mask & !1, mask >> 1 | (1u64 << (n - 1)) & mask];
            pats.push((rng.next() & mask) | 1);
            for i in 0..=blocks {
                for &p in &pats {
                    for rest in [0u64, u64::MAX, rng.next(), rng.next() & rng.next(), rng.next() | rng.next()] {
                        let mut v = 0u64;
                        for b in 0..blocks {
                            let blk = if b < i { p } else if b == i { 0 } else { (rest >> (b * n % 64)) & mask };
                            v |= if n == 64 { blk } else { blk << (b * n) };
                        }
                        m.check(v, order);
                        // and the same row at every other order
                        m.all_orders(v);
                        m.structured += 8;
                    }
                }
            }
        }
        families.push("first i aligned blocks non-free (6 patterns incl. borrow-propagation 0x01.. / 0x80..), block i free, rest {0, ones, random}".into());
        // (a4) complete block-alphabet families (sharded)
        let fam: Vec<(usize, usize, Vec<u64>, &str)> = if thorough {
            vec![
                (3, 8, vec![0x00, 0xff, 0x01, 0x80, 0x7f, 0xfe, 0x10, 0x55], "order 3: all 8^8 rows over bytes {00,ff,01,80,7f,fe,10,55}"),
                (4, 16, vec![0, 0xffff, 1, 0x8000, 0x7fff, 0xfffe, 0x0100, 0x00ff, 0xff00, 0x0101, 0x5555, 0x0001 << 4], "order 4: all 12^4 rows over 12 halfword patterns"),
                (2, 4, vec![0x0, 0xf, 0x1, 0x8], "order 2: all 4^16 rows over nibbles {0,f,1,8}"),
                (1, 2, vec![0, 3, 1], "order 1: all 3^32 is too large; enumerated: 3^20 low pairs x high 24 bits zero"),
                (5, 32, vec![0, 0xffff_ffff, 1, 0x8000_0000, 0x0001_0000, 0xffff_0000, 0x0000_ffff, 0x7fff_ffff, 0xffff_fffe, 0x5555_5555, 0x0100_0000, 0x0000_0100, 2, 0x4000_0000, 0x00ff_ff00, 0xff00_00ff], "order 5: all 16^2 rows over 16 word patterns"),
            ]
        } else {
            vec![
                (3, 8, vec![0x00, 0xff, 0x01, 0x80, 0x7f], "order 3: all 5^8 rows over bytes {00,ff,01,80,7f}"),
                (4, 16, vec![0, 0xffff, 1, 0x8000, 0x7fff, 0xfffe, 0x0100, 0x00ff], "order 4: all 8^4 rows over 8 halfword patterns"),
                (2, 4, vec![0x0, 0xf, 0x1], "order 2: all 3^16 rows over nibbles {0,f,1}"),
                (5, 32, vec![0, 0xffff_ffff, 1, 0x8000_0000, 0x0001_0000, 0xffff_0000, 0x0000_ffff, 0x7fff_ffff], "order 5: all 8^2 rows over 8 word patterns"),
            ]
        };
        for (order, bits, alpha, name) in fam {
            if order == 1 {
                // 3^20 pairs in the low 40 bits
                let a = alpha.len() as u64;
                let total = a.pow(20);
                let mut idx = args.shard as u64;
                let mut n = 0u64;
                while idx < total {
                    let mut x = idx;
                    let mut v = 0u64;
                    for p in 0..20 {
                        v |= alpha[(x % a) as usize] << (p * 2);
                        x /= a;
                    }
                    m.check(v, 1);
                    m.check(v | 0xffff_ff00_0000_0000, 1);
                    m.structured += 2;
                    idx += args.shards as u64;
                    n += 1;
                    if n % (1 << 20) == 0 && Instant::now() > deadline {
                        complete = false;
                        break;
                    }
                }
            } else if !enum_blocks(&mut m, order, bits, &alpha, args.shard, args.shards, deadline) {
                complete = false;
            }
            families.push(name.to_string());
        }
        // (b) random rows: uniform and density-biased, all orders, until the budget is used
        let mut n = 0u64;
        loop {
            let r = rng.next();
            let v = match n % 6 {
                0 => r,
                1 => r & rng.next(),
                2 => r | rng.next(),
                3 => r & rng.next() & rng.next(),
                4 => r | rng.next() | rng.next(),
                _ => {
                    // byte-wise: each byte from a small set
                    let mut v = 0u64;
                    let mut x = r;
                    for b in 0..8 {
                        v |= [0x00u64, 0xff, 0x01, 0x80, x & 0xff, 0xf0, 0x0f, 0xfe][(x % 8) as usize] << (b * 8);
                        x >>= 8;
                    }
                    v
                }
            };
            m.all_orders(v);
            if samples.len() < 6 {
                samples.push(J::obj().with("row", format!("{v:#018x}")).with("results", J::Arr((0..=6).map(|o| J::from(format!("{:?}", ref_first_zeros(v, o).map(|x| x.1)))).collect())));
            }
            n += 1;
            if n % 65536 == 0 && Instant::now() > deadline {
                break;
            }
        }
        evals = m.evals;
        structured = m.structured;
        classes = m.classes.len();
        fams = families;
    }
    rep.evaluations = evals;
    rep.calls = evals;
    rep.add("structured_rows", structured);
    rep.add("random_rows", evals - structured.min(evals));
    rep.add("families_complete", complete as u64);
    for t in &fams {
        rep.tuples.insert(t.clone());
    }
    rep.extra.insert("x_distinct_classes".into(), J::from(classes));
    rep.samples = samples;
    rep
}

// ---------------------------------------------------------------------------------------------
// C16 sortmon

fn sorted_case<const N: usize>(seq: &[u8], rep: &mut Report) -> bool {
    let mut buf = SortedBuffer::<N, OrdBy<u8, usize>>::new();
    for (i, &k) in seq.iter().enumerate() {
        buf.add(OrdBy(k, i));
    }
    let got: Vec<(u8, usize)> = buf.iter().map(|e| (e.0, e.1)).collect();
    // reference: the N largest keys, ascending
    let mut want: Vec<u8> = seq.to_vec();
    want.sort();
    let want: Vec<u8> = want[want.len().saturating_sub(N)..].to_vec();
    let got_keys: Vec<u8> = got.iter().map(|g| g.0).collect();
    let ids_ok = got.iter().all(|&(k, i)| i < seq.len() && seq[i] == k)
        && got.iter().map(|g| g.1).collect::<BTreeSet<_>>().len() == got.len();
    if got_keys != want || !ids_ok {
        let msg = format!(
            "SortedBuffer<{N}>: after adding keys {seq:?} iter() yields keys {got_keys:?} (entries {got:?}); the {N} highest keys ascending are {want:?}"
        );
        rep.violation("C16", &msg, || {
            J::obj().with("engine", "sort").with("property", "C16").with("n", N).with("seq", seq.to_vec()).with("message", msg.clone())
        });
        return false;
    }
    true
}

fn sorted_dispatch(n: usize, seq: &[u8], rep: &mut Report) -> bool {
    match n {
        1 => sorted_case::<1>(seq, rep),
        2 => sorted_case::<2>(seq, rep),
        3 => sorted_case::<3>(seq, rep),
        4 => sorted_case::<4>(seq, rep),
        5 => sorted_case::<5>(seq, rep),
        6 => sorted_case::<6>(seq, rep),
        7 => sorted_case::<7>(seq, rep),
        _ => sorted_case::<8>(seq, rep),
    }
}

/// A deterministic pseudo-random rating of (class, free) derived from `salt`
fn rate_fn(salt: u64, c: Class, free: usize) -> Policy {
    let h = crate::rng::hash64(salt, (c.0 as u64) << 32 | (free as u64 / 64));
    match h % 11 {
        0 | 1 => Policy::Match(u8::MAX),
        2 => Policy::Match(0),
        3 => Policy::Match(1),
        4 => Policy::Match(2),
        5 => Policy::Match(200),
        6 | 7 => Policy::Demote,
        8 => Policy::Steal,
        _ => Policy::Invalid,
    }
}

fn search_case<const N: usize>(s: &Sut, salt: u64, start: usize, offset: usize, len: usize, rep: &mut Report) -> Option<(usize, usize)> {
    let a = s.a();
    let trees = a.trees.len();
    let calls: RefCell<Vec<usize>> = RefCell::new(Vec::new());
    let r = catch(|| {
        a.trees.search_best::<N, ()>(TreeId(start), offset, len, |c, f| rate_fn(salt, c, f), |t| {
            calls.borrow_mut().push(t.0);
            Err(Error::Memory)
        })
    });
    let calls = calls.into_inner();
    // reference
    let mut perfect = Vec::new();
    let mut cands: Vec<((Policy, bool), usize)> = Vec::new();
    for i in offset..len {
        let off: isize = if i % 2 == 0 { (i / 2) as isize } else { -((i.div_ceil(2)) as isize) };
        let t = ((start + trees) as isize + off) as usize % trees;
        let (c, f, res) = a.trees.stats_at(TreeId(t));
        if res {
            continue;
        }
        match rate_fn(salt, c, f) {
            Policy::Match(u8::MAX) => perfect.push(t),
            Policy::Invalid => {}
            p => cands.push(((p, f == TREE_FRAMES), t)),
        }
    }
    let mut keys: Vec<(Policy, bool)> = cands.iter().map(|c| c.0).collect();
    keys.sort();
    keys.reverse();
    keys.truncate(N);
    let key_of = |t: usize| cands.iter().find(|c| c.1 == t).map(|c| c.0);
    let mut ok = matches!(r, Ok(Err(Error::Memory)));
    if calls.len() != perfect.len() + keys.len() || calls[..perfect.len().min(calls.len())] != perfect[..] {
        ok = false;
    } else {
        let tail = &calls[perfect.len()..];
        let tail_keys: Vec<Option<(Policy, bool)>> = tail.iter().map(|&t| key_of(t)).collect();
        if tail_keys != keys.iter().map(|k| Some(*k)).collect::<Vec<_>>() {
            ok = false;
        }
        if tail.iter().collect::<BTreeSet<_>>().len() != tail.len() {
            ok = false;
        }
    }
    if !ok {
        let states: Vec<String> = (0..trees)
            .map(|t| {
                let (c, f, res) = a.trees.stats_at(TreeId(t));
                format!("T{t}:c{} f{f} r{} -> {:?}", c.0, res as u8, rate_fn(salt, c, f))
            })
            .collect();
        let msg = format!(
            "search_best::<{N}>(start {start}, offset {offset}, len {len}) result {r:?}: access order {calls:?}; expected perfect matches {perfect:?} in scan order, then candidates with keys {keys:?} best first (candidates {cands:?}); trees: {states:?}"
        );
        rep.violation("C16", &msg, || J::obj().with("engine", "sort").with("property", "C16").with("message", msg.clone()));
        return None;
    }
    Some((perfect.len(), cands.len()))
}

pub fn run_sort(args: &Args) -> Report {
    let mut rep = Report::new("C16", "sort");
    let deadline = Instant::now() + Duration::from_millis(args.budget_ms);
    let mut rng = Rng::new(args.seed.wrapping_mul(91).wrapping_add(args.shard as u64));
    let mut distinct: BTreeSet<(usize, Vec<u8>)> = BTreeSet::new();
    // (a) complete: every sequence of length <= 8 over domains of size 2..4, capacities 1..8
    let mut complete = true;
    let mut count = 0u64;
    let maxlen = 8;
    'outer: for d in 2..=4u64 {
        for len in 0..=maxlen {
            let total = d.pow(len as u32);
            for idx in 0..total {
                count += 1;
                if count % args.shards as u64 != args.shard as u64 {
                    continue;
                }
                let mut x = idx;
                let seq: Vec<u8> = (0..len)
                    .map(|_| {
                        let v = (x % d) as u8;
                        x /= d;
                        v * 3 + 1
                    })
                    .collect();
                for n in 1..=8 {
                    rep.evaluations += 1;
                    sorted_dispatch(n, &seq, &mut rep);
                    if seq.len() > n && distinct.len() < 50_000 {
                        distinct.insert((n, seq.clone()));
                    }
                }
                if count % 4096 == 0 && Instant::now() > deadline {
                    complete = false;
                    break 'outer;
                }
            }
        }
    }
    rep.add("exhaustive_sequences_complete", complete as u64);
    let overflowing = distinct.len() as u64;
    rep.add("distinct_overflowing_cases", overflowing);
    // (b) search_best over real tree arrays (and random long insertion sequences in between)
    let mut searches = 0u64;
    let mut overfull = 0u64;
    let mut i = 0u64;
    while Instant::now() < deadline {
        i += 1;
        // random long sequences
        for _ in 0..50 {
            let len = rng.range(9, 65);
            let dom = *rng.pick(&[2usize, 3, 5, 16, 250]);
            let seq: Vec<u8> = (0..len).map(|_| rng.below(dom) as u8).collect();
            let n = rng.range(1, 9);
            rep.evaluations += 1;
            sorted_dispatch(n, &seq, &mut rep);
            if rep.samples.len() < 2 {
                rep.samples.push(J::obj().with("capacity", n).with("keys", seq.clone()));
            }
        }
        // an allocator with 9..20 trees whose counters / classes come from real calls
        let trees = rng.range(9, 21);
        let cfg = Cfg::movable(1);
        let frames = trees * TREE_FRAMES - if rng.chance(1, 3) { rng.below(TREE_FRAMES) } else { 0 };
        let Ok(s) = Sut::new(frames, Init::FreeAll, &cfg, default_place(i)) else {
            rep.notes.push("construction failed".into());
            continue;
        };
        let a = s.a();
        for t in 0..trees {
            // allocate a random amount in the tree (targeted, no slot)
            let kind = rng.below(6);
            let base = t * TREE_FRAMES;
            let lim = TREE_FRAMES.min(frames - base);
            let n = match kind {
                0 => 0,
                1 => lim,
                2 => rng.below(64),
                3 => lim - rng.below(64.min(lim)),
                _ => rng.below(lim + 1),
            };
            let mut f = 0;
            while f < n {
                let order = if f % HUGE_FRAMES == 0 && n - f >= HUGE_FRAMES && HUGE_ORDER <= TREE_ORDER { HUGE_ORDER } else if f % 64 == 0 && n - f >= 64 { 6 } else { 0 };
                let _ = a.get(Some(FrameId(base + f)), cfg.request(order, 0, None));
                f += 1 << order;
            }
            if rng.chance(1, 2) {
                let _ = a.change_tree(
                    TreeMatch { id: Some(TreeId(t)), class: None, free: 0 },
                    TreeChange { class: Some(Class(rng.below(3) as u8)), operation: None },
                );
            }
        }
        // a reservation or two
        for _ in 0..rng.below(3) {
            let _ = a.get(None, cfg.request(0, rng.below(3) as u8, Some(0)));
        }
        for _ in 0..40 {
            let salt = rng.next();
            let start = rng.below(trees);
            let (offset, len) = match rng.below(3) {
                0 => (0, trees),
                1 => (1, rng.range(1, trees + 1)),
                _ => (rng.below(3), rng.range(1, trees + 1)),
            };
            rep.evaluations += 1;
            searches += 1;
            let r = match rng.below(3) {
                0 => search_case::<1>(&s, salt, start, offset, len, &mut rep).map(|x| (x, 1)),
                1 => search_case::<3>(&s, salt, start, offset, len, &mut rep).map(|x| (x, 3)),
                _ => search_case::<8>(&s, salt, start, offset, len, &mut rep).map(|x| (x, 8)),
            };
            if let Some(((p, c), n)) = r {
                if c > n {
                    overfull += 1;
                }
                if rep.samples.len() < 5 && c > n {
                    rep.samples.push(J::obj().with("search_best_capacity", n).with("perfect_matches", p).with("imperfect_candidates", c).with("trees", trees));
                }
            }
        }
    }
    rep.add("tree_searches", searches);
    rep.add("tree_searches_with_more_candidates_than_capacity", overfull);
    rep.extra.insert("x_distinct_classes".into(), J::from(overflowing + overfull));
    rep.calls = rep.evaluations;
    let _ = TREE_HUGE;
    rep
}

// ---------------------------------------------------------------------------------------------
// C12 lowermon

/// Allocation pattern of one tree (true = allocated), `huge[h]` = allocated as a whole huge frame
struct Pattern {
    bits: Vec<bool>,
    huge: Vec<bool>,
}

fn gen_pattern(rng: &mut Rng, lim: usize) -> Pattern {
    let mut bits = vec![false; TREE_FRAMES];
    let mut huge = vec![false; TREE_HUGE];
    for f in lim..TREE_FRAMES {
        bits[f] = true; // outside the managed range
    }
    let style = rng.below(5);
    for h in 0..TREE_HUGE {
        let base = h * HUGE_FRAMES;
        if base >= lim {
            break;
        }
        let complete = base + HUGE_FRAMES <= lim;
        let kind = match style {
            0 => rng.below(8),
            1 => *rng.pick(&[1usize, 1, 1, 2, 6]),
            2 => *rng.pick(&[0usize, 3, 4]),
            _ => rng.below(8),
        };
        let end = (base + HUGE_FRAMES).min(lim);
        match kind {
            0 => {}
            1 if complete => {
                huge[h] = true;
                bits[base..end].fill(true);
            }
            2 | 1 => bits[base..end].fill(true),
            3 => {
                bits[base..end].fill(true);
                bits[rng.range(base, end)] = false;
            }
            4 => bits[rng.range(base, end)] = true,
            5 => {
                for f in base..end {
                    bits[f] = rng.chance(1, 2);
                }
            }
            _ => {
                // per row / per aligned sub-block structure
                let sub = *rng.pick(&[6usize, 7, 8, 3, 4, 5]);
                let n = 1usize << sub;
                let mut f = base;
                while f < end {
                    let e = (f + n).min(end);
                    match rng.below(6) {
                        0 => {}
                        1 => bits[f..e].fill(true),
                        2 => bits[rng.range(f, e)] = true,
                        3 => {
                            bits[f..e].fill(true);
                            bits[rng.range(f, e)] = false;
                        }
                        4 => bits[e - 1] = true,
                        _ => {
                            for x in f..e {
                                bits[x] = rng.chance(1, 3);
                            }
                        }
                    }
                    f = e;
                }
            }
        }
    }
    Pattern { bits, huge }
}

/// "exactly one free block of `order`" patterns: everything allocated but one aligned block
fn one_block_pattern(rng: &mut Rng, lim: usize, order: usize, pos: usize) -> Option<Pattern> {
    let n = 1usize << order;
    let cnt = lim / n;
    if cnt == 0 {
        return None;
    }
    let b = match pos {
        0 => 0,
        1 => cnt - 1,
        _ => rng.below(cnt),
    } * n;
    let mut bits = vec![true; TREE_FRAMES];
    bits[b..b + n].fill(false);
    let mut huge = vec![false; TREE_HUGE];
    for h in 0..lim / HUGE_FRAMES {
        // half of the completely allocated huge frames as whole huge frames
        if bits[h * HUGE_FRAMES..(h + 1) * HUGE_FRAMES].iter().all(|x| *x) && rng.chance(1, 2) {
            huge[h] = true;
        }
    }
    Some(Pattern { bits, huge })
}

fn install(s: &Sut, tree: usize, p: &Pattern, lim: usize) -> Result<(), String> {
    let a = s.a();
    let base = tree * TREE_FRAMES;
    for h in 0..TREE_HUGE {
        let hb = h * HUGE_FRAMES;
        if hb >= lim {
            break;
        }
        if p.huge[h] {
            a.lower.get(TreeId(tree).as_row(), HUGE_ORDER, Some(FrameId(base + hb))).map_err(|e| format!("install huge: {e:?}"))?;
            continue;
        }
        let end = (hb + HUGE_FRAMES).min(lim);
        let mut f = hb;
        while f < end {
            if p.bits[f] {
                // use full rows where possible
                if f % 64 == 0 && f + 64 <= end && p.bits[f..f + 64].iter().all(|x| *x) {
                    a.lower.get(TreeId(tree).as_row(), 6, Some(FrameId(base + f))).map_err(|e| format!("install row: {e:?}"))?;
                    f += 64;
                    continue;
                }
                a.lower.get(TreeId(tree).as_row(), 0, Some(FrameId(base + f))).map_err(|e| format!("install bit: {e:?}"))?;
            }
            f += 1;
        }
    }
    Ok(())
}

fn status(s: &Sut, tree: usize, lim: usize) -> Vec<bool> {
    let a = s.a();
    (0..lim).map(|f| a.stats_at(FrameId(tree * TREE_FRAMES + f), 0).free_frames == 0).collect()
}

pub fn run_lower(args: &Args) -> Report {
    let mut rep = Report::new("C12", "lower");
    let deadline = Instant::now() + Duration::from_millis(args.budget_ms);
    let mut rng = Rng::new(args.seed.wrapping_mul(53).wrapping_add(args.shard as u64));
    let cfg = Cfg::simple(1);
    let mut classes: BTreeSet<(usize, bool, usize)> = BTreeSet::new();
    let mut i = 0u64;
    while Instant::now() < deadline {
        i += 1;
        // tree 0 or tree 1 of a two-tree allocator; the examined tree may be a partial last tree
        let tree = rng.below(2);
        let lim = if tree == 1 && rng.chance(1, 2) {
            *rng.pick(&[HUGE_FRAMES, HUGE_FRAMES + 65, TREE_FRAMES - 1, TREE_FRAMES - HUGE_FRAMES / 2, 64, 63, 1])
        } else {
            TREE_FRAMES
        }
        .min(TREE_FRAMES);
        let frames = tree * TREE_FRAMES + lim;
        let pat = if rng.chance(1, 3) {
            let order = rng.below(TREE_ORDER + 1);
            let pos = rng.below(3);
            match one_block_pattern(&mut rng, lim, order, pos) {
                Some(p) => p,
                None => gen_pattern(&mut rng, lim),
            }
        } else {
            gen_pattern(&mut rng, lim)
        };
        let Ok(s) = Sut::new(frames, Init::FreeAll, &cfg, default_place(i)) else {
            rep.notes.push("construction failed".into());
            continue;
        };
        if let Err(e) = install(&s, tree, &pat, lim) {
            rep.notes.push(format!("pattern install failed: {e}"));
            continue;
        }
        let before = status(&s, tree, lim);
        if before[..] != pat.bits[..lim] {
            rep.notes.push("installed pattern differs from intended".into());
            continue;
        }
        rep.evaluations += 1;
        let a = s.a();
        let rows = TREE_FRAMES / 64;
        for order in 0..=TREE_ORDER {
            let n = 1usize << order;
            // reference scan: aligned entirely free blocks of the tree
            let free_blocks: Vec<usize> = (0..lim / n).map(|b| b * n).filter(|&b| pat.bits[b..b + n].iter().all(|x| !*x)).collect();
            let hints: Vec<usize> = if args.tier_thorough || rows <= 32 { (0..rows).collect() } else { (0..rows).step_by(3).collect() };
            for hint in hints {
                if hint * 64 >= lim.max(1) && hint != 0 {
                    continue; // hint must be inside the managed range
                }
                let mut row = TreeId(tree).as_row();
                row.0 += hint;
                rep.calls += 1;
                let r = catch(|| a.lower.get(row, order, None));
                let fail = |rep: &mut Report, msg: String| {
                    let m2 = format!("tree pattern (lim {lim}), order {order}, row hint {hint}: {msg}");
                    rep.violation("C12", &m2, || {
                        J::obj().with("engine", "lower").with("property", "C12").with("message", m2.clone()).with(
                            "pattern_rows",
                            J::Arr(
                                (0..TREE_FRAMES / 64)
                                    .map(|r| J::from(format!("{:016x}", (0..64).fold(0u64, |v, b| v | ((pat.bits[r * 64 + b] as u64) << b)))))
                                    .collect(),
                            ),
                        )
                    });
                };
                match r {
                    Err(p) => {
                        fail(&mut rep, format!("panicked: {p}"));
                        break;
                    }
                    Ok(Err(e)) => {
                        if !free_blocks.is_empty() {
                            fail(&mut rep, format!("lower.get failed ({e:?}) although {} aligned free block(s) exist, e.g. at frame offset {}", free_blocks.len(), free_blocks[0]));
                        }
                        classes.insert((order, false, 0));
                        let after = status(&s, tree, lim);
                        if after != before {
                            fail(&mut rep, "failed search changed the allocation pattern".into());
                            break;
                        }
                    }
                    Ok(Ok(g)) => {
                        let off = g.0.wrapping_sub(tree * TREE_FRAMES);
                        if !free_blocks.contains(&off) {
                            fail(&mut rep, format!("lower.get returned frame {} (offset {off}) which is not an aligned entirely free block of the tree", g.0));
                            break;
                        }
                        classes.insert((order, true, (off / 64).wrapping_sub(hint) % rows.max(1)));
                        let after = status(&s, tree, lim);
                        let exact = (0..lim).all(|f| after[f] == (before[f] || (f >= off && f < off + n)));
                        if !exact {
                            fail(&mut rep, format!("success at offset {off} did not mark exactly that block"));
                            break;
                        }
                        // undo, pattern must be restored
                        if a.lower.put(g, order).is_err() || status(&s, tree, lim) != before {
                            fail(&mut rep, format!("freeing the block just allocated at offset {off} failed or did not restore the pattern"));
                            break;
                        }
                    }
                }
            }
        }
        if rep.samples.len() < 3 {
            rep.samples.push(
                J::obj().with("tree", tree).with("managed_frames_in_tree", lim).with("allocated_in_pattern", pat.bits[..lim].iter().filter(|x| **x).count()).with(
                    "first_rows",
                    J::Arr((0..4).map(|r| J::from(format!("{:016x}", (0..64).fold(0u64, |v, b| v | ((pat.bits[r * 64 + b] as u64) << b))))).collect()),
                ),
            );
        }
    }
    rep.extra.insert("x_distinct_classes".into(), J::from(classes.len()));
    for c in &classes {
        rep.tuples.insert(format!("order {} found={} row distance from hint {}", c.0, c.1, c.2));
    }
    rep
}
