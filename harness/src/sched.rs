//! E2 schedmon: real OS threads on one real allocator, with the interleaving chosen at the atomic
//! hook (token scheduler). Only the token holder runs; everybody else is parked *at its gate*,
//! i.e. immediately before its next atomic access. A run is a pure function of
//! (scenario seed, strategy), so every violation replays exactly.

use std::collections::{BTreeMap, BTreeSet, HashMap};
use std::panic::Location;
use std::sync::atomic::{AtomicBool, AtomicUsize, Ordering};
use std::sync::{Arc, Mutex};
use std::thread::Thread;

use llfree::{Alloc, Class, Error, FrameId, HUGE_FRAMES, HUGE_ORDER, Init, TREE_FRAMES, TreeChange, TreeId, TreeMatch};

use crate::bufs::{catch, default_place};
use crate::cfgs::Cfg;
use crate::crash::{Tol, check_recovery};
use crate::hooks::{self, LOAD, Sink};
use crate::model::{Block, Model};
use crate::rng::{Rng, hash64};
use crate::sut::Sut;

pub const MAIN: usize = usize::MAX;

// ---------------------------------------------------------------------------------------------
// Scenario

#[derive(Clone, Debug, PartialEq)]
pub enum TOp {
    Get { order: usize, class: u8, slot: Option<usize> },
    GetAt { frame: usize, order: usize, class: u8, slot: Option<usize> },
    /// free the `idx`-th (mod len) block this thread holds; `part`: only a sub-block (order, position)
    Put { idx: usize, part: Option<(usize, usize)>, slot: Option<usize> },
    Drain,
    /// class change by match (first unreserved tree of `mclass` with >= `mfree` free frames)
    Change { id: Option<usize>, mclass: Option<u8>, mfree: usize, nclass: u8 },
}

impl TOp {
    pub fn short(&self) -> String {
        let s = |x: &Option<usize>| x.map(|v| v.to_string()).unwrap_or("-".into());
        match self {
            TOp::Get { order, class, slot } => format!("G(o{order},c{class},s{})", s(slot)),
            TOp::GetAt { frame, order, class, slot } => format!("GA({frame},o{order},c{class},s{})", s(slot)),
            TOp::Put { idx, part, slot } => match part {
                None => format!("P(#{idx},s{})", s(slot)),
                Some((o, p)) => format!("PP(#{idx},o{o},pos{p},s{})", s(slot)),
            },
            TOp::Drain => "D".into(),
            TOp::Change { id, mclass, mfree, nclass } => format!("CT(id{},mc{:?},mf{mfree},nc{nclass})", s(id), mclass),
        }
    }
}

#[derive(Clone)]
pub struct Scen {
    pub family: &'static str,
    pub seed: u64,
    pub frames: usize,
    pub init: Init,
    pub cfg: Cfg,
    /// sequential prefix executed by the main thread (concrete)
    pub prefix: Vec<crate::ops::Op>,
    /// blocks held after the prefix, and which thread owns each
    pub holdings: Vec<(Block, u8, usize)>,
    pub progs: Vec<Vec<TOp>>,
}

// ---------------------------------------------------------------------------------------------
// Strategies

#[derive(Clone, Debug, PartialEq)]
pub enum Strategy {
    /// run `victim` to its k-th gate, stall it, run the others (in `order`) to completion
    /// (or, if `burst` > 0, the next one for `burst` gates only), then resume the victim
    Stall { victim: usize, k: u64, order_rot: usize, burst: u64 },
    /// uniformly random next thread at every gate
    Walk { seed: u64 },
    /// PCT-style: random priorities, `d` priority-change points
    Pct { seed: u64, d: usize, est: u64 },
    /// random walk until global gate `p`, then every in-flight call is run alone (others frozen)
    Solo { seed: u64, p: u64, rot: usize },
}

impl Strategy {
    pub fn to_json(&self) -> crate::json::J {
        use crate::json::J;
        match self {
            Strategy::Stall { victim, k, order_rot, burst } => {
                J::obj().with("kind", "stall").with("victim", *victim).with("k", *k).with("order_rot", *order_rot).with("burst", *burst)
            }
            Strategy::Walk { seed } => J::obj().with("kind", "walk").with("seed", *seed),
            Strategy::Pct { seed, d, est } => J::obj().with("kind", "pct").with("seed", *seed).with("d", *d).with("est", *est),
            Strategy::Solo { seed, p, rot } => J::obj().with("kind", "solo").with("seed", *seed).with("p", *p).with("rot", *rot),
        }
    }
    pub fn from_json(j: &crate::json::J) -> Option<Strategy> {
        let g = |k: &str| j.get(k).and_then(|v| v.as_u64());
        Some(match j.get("kind")?.as_str()? {
            "stall" => Strategy::Stall { victim: g("victim")? as usize, k: g("k")?, order_rot: g("order_rot")? as usize, burst: g("burst")? },
            "walk" => Strategy::Walk { seed: g("seed")? },
            "pct" => Strategy::Pct { seed: g("seed")?, d: g("d")? as usize, est: g("est")? },
            "solo" => Strategy::Solo { seed: g("seed")?, p: g("p")?, rot: g("rot")? as usize },
            _ => return None,
        })
    }
}

// ---------------------------------------------------------------------------------------------
// Run state (only touched by the token holder, behind one mutex)

#[derive(Clone, Debug)]
pub struct RunViol {
    pub props: &'static [&'static str],
    pub msg: String,
}

#[derive(Clone, Debug, Default)]
pub struct InFlight {
    pub put: Option<Block>,
    pub get_at: Option<Block>,
    pub get: Option<usize>,
    pub active: bool,
    pub desc: String,
}

pub struct CrashCfg {
    pub scratch: Sut,
    pub lo: usize,
    pub len: usize,
    /// judge every n-th persistent write (1 = all)
    pub every: u64,
    pub points: u64,
}

struct State {
    n: usize,
    strategy: Strategy,
    rng: Rng,
    done: Vec<bool>,
    /// per-thread gate counters, global gate counter
    gates: Vec<u64>,
    total_gates: u64,
    /// gates of the current call of each thread
    call_gates: Vec<u64>,
    max_call_gates: u64,
    sched_hash: u64,
    switches: u64,
    // stall strategy
    stalled: bool,
    stall_released: bool,
    burst_left: u64,
    // pct
    prio: Vec<u64>,
    change_points: Vec<u64>,
    // solo
    solo_phase: bool,
    solo_order: Vec<usize>,
    solo_pos: usize,
    solo_budget: u64,
    solo_calls: u64,
    solo_max: u64,
    // monitors
    shadow: BTreeMap<usize, (usize, usize)>,
    inflight: Vec<InFlight>,
    viols: Vec<RunViol>,
    aborted: bool,
    last_access: HashMap<usize, (usize, bool, usize)>,
    conflicts: BTreeSet<(usize, usize)>,
    writes_lower: u64,
    crash: Option<CrashCfg>,
    frames: usize,
    step_budget: u64,
}

pub struct Shared {
    turn: AtomicUsize,
    abort: AtomicBool,
    st: Mutex<State>,
    handles: Mutex<Vec<Option<Thread>>>,
    main: Thread,
}

struct AbortRun;

impl Shared {
    fn wake(&self, t: usize) {
        if t == MAIN {
            self.main.unpark();
        } else if let Some(Some(h)) = self.handles.lock().unwrap().get(t) {
            h.unpark();
        }
    }
    fn pass(&self, to: usize) {
        self.turn.store(to, Ordering::SeqCst);
        self.wake(to);
    }
    /// Wait until it is `me`'s turn (or the run is aborted)
    fn wait_turn(&self, me: usize) {
        let mut spins = 0u32;
        loop {
            if self.turn.load(Ordering::SeqCst) == me || self.abort.load(Ordering::SeqCst) {
                return;
            }
            spins += 1;
            if spins < 200 {
                std::hint::spin_loop();
            } else {
                std::thread::park_timeout(std::time::Duration::from_millis(50));
            }
        }
    }
    fn abort_all(&self) {
        self.abort.store(true, Ordering::SeqCst);
        let hs = self.handles.lock().unwrap();
        for h in hs.iter().flatten() {
            h.unpark();
        }
        self.main.unpark();
    }
}

impl State {
    fn runnable(&self) -> Vec<usize> {
        (0..self.n).filter(|&t| !self.done[t]).collect()
    }

    /// Who runs next, decided at a gate (or at the end of a call / thread) of `me`.
    /// `call_boundary`: `me` just finished a call (only relevant in the solo phase).
    fn decide(&mut self, me: usize, call_boundary: bool) -> usize {
        let run = self.runnable();
        if run.is_empty() {
            return MAIN;
        }
        let me_runnable = me != MAIN && !self.done[me];
        match self.strategy.clone() {
            Strategy::Stall { victim, k, order_rot, burst } => {
                if !self.stalled && !self.stall_released {
                    // phase 1: victim runs until its k-th gate
                    if !self.done[victim] {
                        if me == victim && self.gates[victim] == k {
                            self.stalled = true;
                            self.burst_left = burst;
                        } else {
                            return victim;
                        }
                    } else {
                        self.stall_released = true;
                    }
                }
                if self.stalled {
                    // phase 2: the others run, in rotated order
                    let others: Vec<usize> = (0..self.n).map(|i| (i + order_rot + victim + 1) % self.n).filter(|&t| t != victim && !self.done[t]).collect();
                    if burst > 0 {
                        if self.burst_left == 0 || others.is_empty() {
                            self.stalled = false;
                            self.stall_released = true;
                        } else {
                            if me != victim {
                                self.burst_left -= 1;
                            }
                            return others[0];
                        }
                    } else if let Some(&o) = others.first() {
                        return o;
                    } else {
                        self.stalled = false;
                        self.stall_released = true;
                    }
                }
                // phase 3: victim first, then whoever is left
                if !self.done[victim] { victim } else { run[0] }
            }
            Strategy::Walk { .. } => run[self.rng.below(run.len())],
            Strategy::Pct { .. } => {
                if self.change_points.contains(&self.total_gates) && me_runnable {
                    // lower the running thread's priority below everybody else
                    let min = self.prio.iter().copied().min().unwrap_or(0);
                    self.prio[me] = min.saturating_sub(1);
                }
                *run.iter().max_by_key(|&&t| self.prio[t]).unwrap()
            }
            Strategy::Solo { p, rot, .. } => {
                if !self.solo_phase {
                    if self.total_gates >= p {
                        self.solo_phase = true;
                        // threads with a call in flight, rotated
                        self.solo_order = (0..self.n).map(|i| (i + rot) % self.n).filter(|&t| !self.done[t] && self.inflight[t].active).collect();
                        self.solo_pos = 0;
                        self.solo_budget = 0;
                    } else {
                        return run[self.rng.below(run.len())];
                    }
                }
                // solo phase: the current solo thread runs alone until its call returns
                while self.solo_pos < self.solo_order.len() {
                    let t = self.solo_order[self.solo_pos];
                    if self.done[t] || (t == me && call_boundary) || !self.inflight[t].active {
                        if t == me || self.done[t] || !self.inflight[t].active {
                            self.solo_calls += 1;
                            self.solo_max = self.solo_max.max(self.solo_budget);
                        }
                        self.solo_pos += 1;
                        self.solo_budget = 0;
                        continue;
                    }
                    return t;
                }
                // all in-flight calls completed alone: finish round-robin
                if me_runnable { me } else { run[0] }
            }
        }
    }

    fn viol(&mut self, props: &'static [&'static str], msg: String) {
        if self.viols.len() < 8 {
            self.viols.push(RunViol { props, msg });
        }
    }
}

// ---------------------------------------------------------------------------------------------
// The per-thread sink (gate)

struct GateSink {
    me: usize,
    sh: Arc<Shared>,
}

impl Sink for GateSink {
    fn on_access(&mut self, kind: u8, addr: usize, _size: usize, loc: &'static Location<'static>) {
        let sh = &self.sh;
        let me = self.me;
        if sh.abort.load(Ordering::SeqCst) {
            std::panic::resume_unwind(Box::new(AbortRun));
        }
        let next;
        {
            let mut st = sh.st.lock().unwrap();
            st.gates[me] += 1;
            st.total_gates += 1;
            st.call_gates[me] += 1;
            st.sched_hash = hash64(st.sched_hash, me as u64);
            // conflict signatures: different threads touching the same word back to back, one writing
            let word = addr & !7;
            let w = kind != LOAD;
            let lid = loc as *const _ as usize;
            if let Some(&(t, lw, ll)) = st.last_access.get(&word)
                && t != me
                && (lw || w)
            {
                st.conflicts.insert((ll, lid));
            }
            st.last_access.insert(word, (me, w, lid));
            // step budget of a single call (C21)
            if st.call_gates[me] > st.step_budget {
                let d = st.inflight[me].desc.clone();
                let solo = st.solo_phase;
                let b = st.step_budget;
                st.viol(&["C21"], format!("thread {me} call {d} exceeded the step budget of {b} atomic accesses ({})", if solo { "running alone, all other threads frozen" } else { "under the injected schedule" }));
                st.aborted = true;
                drop(st);
                sh.abort_all();
                std::panic::resume_unwind(Box::new(AbortRun));
            }
            if st.solo_phase {
                st.solo_budget += 1;
            }
            // crash point: before a write into the persistent buffer
            if w && st.crash.as_ref().is_some_and(|c| addr >= c.lo && addr < c.lo + c.len) {
                st.writes_lower += 1;
                let every = st.crash.as_ref().unwrap().every;
                if st.writes_lower % every == 0 {
                    judge_crash(&mut st, me);
                }
            }
            next = st.decide(me, false);
            if next != me {
                st.switches += 1;
            }
        }
        if next != me {
            sh.pass(next);
            sh.wait_turn(me);
            if sh.abort.load(Ordering::SeqCst) {
                std::panic::resume_unwind(Box::new(AbortRun));
            }
        }
    }
}

/// Crash snapshot at a gate: all other threads are parked at their gates (consistent cut).
fn judge_crash(st: &mut State, _me: usize) {
    let Some(mut c) = st.crash.take() else { return };
    c.points += 1;
    let mut snap = vec![0u8; c.len];
    unsafe { std::ptr::copy_nonoverlapping(c.lo as *const u8, snap.as_mut_ptr(), c.len) };
    // effects of completed calls: blocks in the shadow + blocks of started frees are allocated
    let mut model = Model::new_free(st.frames);
    let mut held = Vec::new();
    for (&f, &(o, _)) in &st.shadow {
        let b = Block { frame: f, order: o };
        model.alloc[b.frame..b.end()].fill(true);
        held.push(b);
    }
    let mut tol = Tol::default();
    for i in &st.inflight {
        if !i.active {
            continue;
        }
        if let Some(b) = i.put {
            model.alloc[b.frame..b.end()].fill(true);
            tol.puts.push(b);
        }
        if let Some(b) = i.get_at {
            tol.get_ats.push(b);
        }
        if let Some(o) = i.get {
            tol.gets.push(o);
        }
    }
    let msgs = check_recovery(&mut c.scratch, &snap, &model, &held, &tol);
    let n = st.writes_lower;
    let inflight: Vec<String> = st.inflight.iter().filter(|i| i.active).map(|i| i.desc.clone()).collect();
    for m in msgs {
        st.viol(&["C05"], format!("crash before persistent write #{n} (calls in flight: {inflight:?}): {m}"));
    }
    st.crash = Some(c);
}

// ---------------------------------------------------------------------------------------------
// One run

#[derive(Default, Debug, Clone)]
pub struct RunOut {
    pub viols: Vec<RunViol>,
    pub gates: u64,
    pub switches: u64,
    pub sched_hash: u64,
    pub conflicts: BTreeSet<(usize, usize)>,
    pub per_thread_gates: Vec<u64>,
    pub max_call_gates: u64,
    pub aborted: bool,
    pub crash_points: u64,
    pub solo_calls: u64,
    pub solo_max: u64,
    pub calls: u64,
    pub ok_gets: u64,
    pub failed_gets: u64,
    pub harness_error: Option<String>,
}

pub struct RunCfg {
    pub crash_every: u64,
    pub step_budget: u64,
    pub final_check: bool,
}

fn err_name(e: Error) -> &'static str {
    match e {
        Error::Memory => "Memory",
        Error::Argument => "Argument",
        Error::Initialization => "Initialization",
    }
}

/// Execute the sequential prefix on a freshly initialised allocator (raw calls, no gates).
/// The buffers of a previous run of the same scenario are re-used (re-initialised in place).
fn setup(sc: &Scen, cache: &mut Option<Sut>) -> Result<Sut, String> {
    let s = match cache.take() {
        Some(mut s) if s.frames == sc.frames && s.cfg.name == sc.cfg.name && s.cfg.classes == sc.cfg.classes => {
            s.reinit(sc.init).map_err(|e| format!("re-initialisation: {e:?}"))?;
            s
        }
        _ => Sut::new(sc.frames, sc.init, &sc.cfg, default_place(sc.seed)).map_err(|e| format!("construction: {e:?}"))?,
    };
    {
        let a = s.a();
        for op in &sc.prefix {
            use crate::ops::Op;
            match op {
                Op::Get { order, class, slot } => drop(a.get(None, sc.cfg.request(*order, *class, *slot))),
                Op::GetAt { frame, order, class, slot } => drop(a.get(Some(FrameId(*frame)), sc.cfg.request(*order, *class, *slot))),
                Op::Put { frame, order, class, slot } => drop(a.put(FrameId(*frame), sc.cfg.request(*order, *class, *slot))),
                Op::Drain => a.drain(),
                _ => {}
            }
        }
    }
    Ok(s)
}

/// Buffers kept between the runs of one scenario
#[derive(Default)]
pub struct RunCache {
    sut: Option<Sut>,
    scratch: Option<Sut>,
}

pub fn run_once(sc: &Scen, strategy: &Strategy, rc: &RunCfg, cache: &mut RunCache) -> RunOut {
    let mut out = RunOut::default();
    let s = match catch(|| setup(sc, &mut cache.sut)) {
        Ok(Ok(s)) => s,
        Ok(Err(e)) => {
            out.harness_error = Some(e);
            return out;
        }
        Err(p) => {
            out.harness_error = Some(format!("prefix panicked: {p}"));
            return out;
        }
    };
    let n = sc.progs.len();
    let mut shadow = BTreeMap::new();
    for (b, _c, t) in &sc.holdings {
        shadow.insert(b.frame, (b.order, *t));
    }
    // the prefix must have produced exactly the holdings the scenario was generated with
    {
        let a = s.a();
        for (b, _, _) in &sc.holdings {
            if (b.frame..b.end()).any(|f| a.stats_at(FrameId(f), 0).free_frames != 0) {
                out.harness_error = Some(format!("prefix did not reproduce holding {b:?}"));
                return out;
            }
        }
    }
    let seed = match strategy {
        Strategy::Walk { seed } | Strategy::Pct { seed, .. } | Strategy::Solo { seed, .. } => *seed,
        Strategy::Stall { victim, k, .. } => (*victim as u64) << 32 | *k,
    };
    let mut rng = Rng::new(seed);
    let mut prio: Vec<u64> = (0..n as u64).map(|i| 1000 + i).collect();
    rng.shuffle(&mut prio);
    let change_points = match strategy {
        Strategy::Pct { d, est, .. } => (0..*d).map(|_| rng.below((*est).max(1) as usize) as u64).collect(),
        _ => Vec::new(),
    };
    let crash = if rc.crash_every > 0 {
        let scratch = match cache.scratch.take() {
            Some(x) if x.frames == sc.frames && x.cfg.classes == sc.cfg.classes => Some(x),
            _ => Sut::new(sc.frames, Init::FreeAll, &sc.cfg, default_place(sc.seed ^ 1)).ok(),
        };
        scratch.map(|scratch| CrashCfg {
            scratch,
            lo: s.lower.addr(),
            len: s.lower.len(),
            every: rc.crash_every,
            points: 0,
        })
    } else {
        None
    };
    let st = State {
        n,
        strategy: strategy.clone(),
        rng,
        done: vec![false; n],
        gates: vec![0; n],
        total_gates: 0,
        call_gates: vec![0; n],
        max_call_gates: 0,
        sched_hash: 0x5eed,
        switches: 0,
        stalled: false,
        stall_released: false,
        burst_left: 0,
        prio,
        change_points,
        solo_phase: false,
        solo_order: Vec::new(),
        solo_pos: 0,
        solo_budget: 0,
        solo_calls: 0,
        solo_max: 0,
        shadow,
        inflight: vec![InFlight::default(); n],
        viols: Vec::new(),
        aborted: false,
        last_access: HashMap::new(),
        conflicts: BTreeSet::new(),
        writes_lower: 0,
        crash,
        frames: sc.frames,
        step_budget: rc.step_budget,
    };
    let sh = Arc::new(Shared {
        turn: AtomicUsize::new(MAIN),
        abort: AtomicBool::new(false),
        st: Mutex::new(st),
        handles: Mutex::new(vec![None; n]),
        main: std::thread::current(),
    });
    let calls = AtomicUsize::new(0);
    let ok_gets = AtomicUsize::new(0);
    let failed_gets = AtomicUsize::new(0);
    let a = s.a();
    let pool = crate::pool::global();
    *sh.handles.lock().unwrap() = pool.threads.iter().take(n).cloned().map(Some).collect();
    {
        let mut jobs: Vec<Box<dyn FnOnce() + Send + '_>> = Vec::new();
        for t in 0..n {
            let sh = sh.clone();
            let prog = sc.progs[t].clone();
            let cfg = sc.cfg.clone();
            let frames = sc.frames;
            let mut mine: Vec<(Block, u8)> = sc.holdings.iter().filter(|h| h.2 == t).map(|h| (h.0, h.1)).collect();
            let (calls, ok_gets, failed_gets) = (&calls, &ok_gets, &failed_gets);
            jobs.push(Box::new(move || {
                sh.wait_turn(t);
                let mut sink = GateSink { me: t, sh: sh.clone() };
                'prog: for op in prog {
                    if sh.abort.load(Ordering::SeqCst) {
                        break;
                    }
                    calls.fetch_add(1, Ordering::Relaxed);
                    // ---- before the call (token held): bookkeeping
                    let mut put_block: Option<(Block, usize, u8)> = None;
                    {
                        let mut st = sh.st.lock().unwrap();
                        st.call_gates[t] = 0;
                        let mut inf = InFlight { active: true, desc: op.short(), ..Default::default() };
                        match &op {
                            TOp::Get { order, .. } => inf.get = Some(*order),
                            TOp::GetAt { frame, order, .. } => inf.get_at = Some(Block { frame: *frame, order: *order }),
                            TOp::Put { idx, part, .. } => {
                                if mine.is_empty() {
                                    continue 'prog;
                                }
                                let i = idx % mine.len();
                                let (hb, hc) = mine[i];
                                let b = match part {
                                    Some((o, pos)) if *o < hb.order => {
                                        let parts = 1usize << (hb.order - o);
                                        Block { frame: hb.frame + (pos % parts) * (1 << o), order: *o }
                                    }
                                    _ => hb,
                                };
                                // the free starts now: the block leaves the ownership shadow
                                st.shadow.remove(&hb.frame);
                                mine.remove(i);
                                if b != hb {
                                    for p in Model::split_remaining(hb, b) {
                                        st.shadow.insert(p.frame, (p.order, t));
                                        mine.push((p, hc));
                                    }
                                }
                                inf.put = Some(b);
                                inf.desc = format!("{} = put(frame {}, order {})", op.short(), b.frame, b.order);
                                put_block = Some((b, i, hc));
                            }
                            _ => {}
                        }
                        st.inflight[t] = inf;
                    }
                    // ---- the call, every atomic access gated
                    let r = hooks::with_sink(&mut sink, || {
                        std::panic::catch_unwind(std::panic::AssertUnwindSafe(|| match &op {
                            TOp::Get { order, class, slot } => a.get(None, cfg.request(*order, *class, *slot)).map(Some),
                            TOp::GetAt { frame, order, class, slot } => a.get(Some(FrameId(*frame)), cfg.request(*order, *class, *slot)).map(Some),
                            TOp::Put { slot, .. } => {
                                let (b, _, c) = put_block.unwrap();
                                let slot = slot.filter(|_| cfg.slot_count(c).unwrap_or(0) > 0).map(|s| s % cfg.slot_count(c).unwrap());
                                a.put(FrameId(b.frame), cfg.request(b.order, c, slot)).map(|()| None)
                            }
                            TOp::Drain => {
                                a.drain();
                                Ok(None)
                            }
                            TOp::Change { id, mclass, mfree, nclass } => {
                                let _ = a.change_tree(
                                    TreeMatch { id: id.map(TreeId), class: mclass.map(Class), free: *mfree },
                                    TreeChange { class: Some(Class(*nclass)), operation: None },
                                );
                                Ok(None)
                            }
                        }))
                    });
                    // ---- after the call (token still held)
                    let mut st = sh.st.lock().unwrap();
                    let cg = st.call_gates[t];
                    st.max_call_gates = st.max_call_gates.max(cg);
                    st.inflight[t].active = false;
                    match r {
                        Err(payload) => {
                            if payload.is::<AbortRun>() {
                                break 'prog;
                            }
                            let p = crate::bufs::take_panic();
                            let solo = st.solo_phase;
                            let d = st.inflight[t].desc.clone();
                            st.viol(
                                if solo { &["C03", "C21"] } else { &["C03"] },
                                format!("thread {t} call {d} panicked{}: {p}", if solo { " while running alone (all other threads frozen)" } else { "" }),
                            );
                            st.aborted = true;
                            st.done[t] = true;
                            drop(st);
                            sh.abort_all();
                            break 'prog;
                        }
                        Ok(res) => match (&op, res) {
                            (TOp::Get { order, class, .. }, Ok(Some((f, c)))) | (TOp::GetAt { order, class, .. }, Ok(Some((f, c)))) => {
                                ok_gets.fetch_add(1, Ordering::Relaxed);
                                let b = Block { frame: f.0, order: *order };
                                // C01: aligned, in range, disjoint from every block handed out and not yet being freed
                                if b.end() > frames || b.frame % b.len() != 0 {
                                    st.viol(&["C01", "C03"], format!("thread {t} {}: returned frame {} order {order}: misaligned or outside the {frames} managed frames", op.short(), f.0));
                                } else {
                                    let clash = st.shadow.range(..b.end()).rev().take_while(|(ff, (oo, _))| *ff + (1usize << *oo) > b.frame).map(|(ff, (oo, tt))| (*ff, *oo, *tt)).next();
                                    if let Some((ff, oo, tt)) = clash {
                                        st.viol(&["C01", "C03"], format!("thread {t} {}: returned frame {} order {order} overlaps the block (frame {ff}, order {oo}) held by thread {tt}", op.short(), f.0));
                                    } else {
                                        st.shadow.insert(b.frame, (b.order, t));
                                        mine.push((b, c.0));
                                    }
                                    if let TOp::GetAt { frame, .. } = &op
                                        && *frame != f.0
                                    {
                                        st.viol(&["C03"], format!("thread {t} {}: targeted allocation returned frame {}", op.short(), f.0));
                                    }
                                }
                                if !cfg.class_permitted(*class, c.0, *order) {
                                    st.viol(&["C13"], format!("thread {t} {}: requested class {class}, reported class {} is neither match nor stealable under the policy", op.short(), c.0));
                                }
                            }
                            (TOp::Get { .. } | TOp::GetAt { .. }, Err(e)) => {
                                failed_gets.fetch_add(1, Ordering::Relaxed);
                                let (o, f0) = match &op {
                                    TOp::Get { order, .. } => (*order, 0),
                                    TOp::GetAt { order, frame, .. } => (*order, *frame),
                                    _ => (0, 0),
                                };
                                let valid = o <= llfree::TREE_ORDER && f0 + (1usize << o) <= frames && f0 % (1usize << o) == 0;
                                if e != Error::Memory && (valid || e != Error::Argument) {
                                    st.viol(&["C03"], format!("thread {t} {}: valid request failed with {}", op.short(), err_name(e)));
                                }
                            }
                            (TOp::Put { .. }, Err(e)) => {
                                let d = st.inflight[t].desc.clone();
                                st.viol(&["C03"], format!("thread {t} {d}: free of a held block failed with {}", err_name(e)));
                            }
                            _ => {}
                        },
                    }
                    // end of call: a scheduling point in the solo phase
                    if st.solo_phase || matches!(st.strategy, Strategy::Solo { .. }) {
                        let next = st.decide(t, true);
                        drop(st);
                        if next != t {
                            sh.pass(next);
                            sh.wait_turn(t);
                        }
                    }
                }
                // thread finished
                let next = {
                    let mut st = sh.st.lock().unwrap();
                    st.done[t] = true;
                    st.inflight[t].active = false;
                    if st.aborted { MAIN } else { st.decide(t, true) }
                };
                if !sh.abort.load(Ordering::SeqCst) {
                    sh.pass(next);
                } else {
                    sh.main.unpark();
                }
            }));
        }
        let running = pool.start(jobs);
        // hand the token to the first thread
        let first = sh.st.lock().unwrap().decide(MAIN, false);
        sh.pass(first);
        // wait for the token to come back (all done) or abort
        loop {
            if sh.turn.load(Ordering::SeqCst) == MAIN && sh.st.lock().unwrap().runnable().is_empty() {
                break;
            }
            if sh.abort.load(Ordering::SeqCst) {
                break;
            }
            std::thread::park_timeout(std::time::Duration::from_millis(20));
        }
        if sh.abort.load(Ordering::SeqCst) {
            sh.abort_all();
        }
        running.wait();
    }
    drop(pool);
    let mut st = sh.st.lock().unwrap();
    out.gates = st.total_gates;
    out.switches = st.switches;
    out.sched_hash = st.sched_hash;
    out.conflicts = std::mem::take(&mut st.conflicts);
    out.per_thread_gates = st.gates.clone();
    out.max_call_gates = st.max_call_gates;
    out.aborted = st.aborted;
    out.crash_points = st.crash.as_ref().map(|c| c.points).unwrap_or(0);
    out.solo_calls = st.solo_calls;
    out.solo_max = st.solo_max;
    out.calls = calls.load(Ordering::Relaxed) as u64;
    out.ok_gets = ok_gets.load(Ordering::Relaxed) as u64;
    out.failed_gets = failed_gets.load(Ordering::Relaxed) as u64;
    out.viols = std::mem::take(&mut st.viols);

    // ---- quiescent end-of-run check: all queries against the model built from the ownership shadow
    if rc.final_check && !st.aborted && out.viols.is_empty() {
        let mut model = Model::new_free(sc.frames);
        for (&f, &(o, _)) in &st.shadow {
            let b = Block { frame: f, order: o };
            model.alloc[b.frame..b.end()].fill(true);
            if o >= HUGE_ORDER {
                for h in b.frame / HUGE_FRAMES..b.end() / HUGE_FRAMES {
                    model.whole[h] = true;
                }
            }
        }
        let mut v = Vec::new();
        let mut orng = Rng::new(sc.seed);
        crate::oracle::compare(a, &model, &mut orng, &mut v);
        crate::oracle::compare_class_stats(a, &model, &mut v);
        for x in v {
            out.viols.push(RunViol { props: x.props, msg: format!("at the quiescent end of the run: {}", x.msg) });
        }
        // conservation: every block still held is freeable; afterwards everything is free again
        if out.viols.is_empty() {
            let cls = sc.cfg.classes[0].0;
            let mut blocks: Vec<Block> = st.shadow.iter().map(|(&f, &(o, _))| Block { frame: f, order: o }).collect();
            blocks.sort_by(|x, y| y.order.cmp(&x.order));
            for b in blocks {
                match catch(|| a.put(FrameId(b.frame), sc.cfg.request(b.order, cls, None))) {
                    Ok(Ok(())) => {}
                    r => {
                        out.viols.push(RunViol { props: &["C03", "C04"], msg: format!("after the run, free of held block {b:?} -> {r:?}") });
                        break;
                    }
                }
            }
            let stt = a.stats();
            if out.viols.is_empty() && (stt.free_frames != sc.frames || a.tree_stats().free_frames != sc.frames) {
                out.viols.push(RunViol {
                    props: &["C04"],
                    msg: format!("after freeing everything: exact free {} fast free {} managed {}", stt.free_frames, a.tree_stats().free_frames, sc.frames),
                });
            }
        }
    }
    let _ = TREE_FRAMES;
    cache.scratch = st.crash.take().map(|c| c.scratch);
    drop(st);
    cache.sut = Some(s);
    out
}
