"""Generates /verif/MANIFEST.json from the plans (run: python3 -m lib.manifest)."""
import json
import os
import subprocess

from . import plans

VERIF = plans.VERIF

TEXT = {}

NOT_APPLICABLE = {
    "C22": "the C implementation is not in the tree (llc/ is an empty submodule directory, pinned update=none, no network): "
           "there is no execution to observe, so runtime monitoring cannot apply; see DESIGN.md §5 C22",
}

ALL = [f"C{n:02d}" for n in range(1, 24)]


def main():
    hooks_commits = subprocess.run(["git", "-C", "/repo", "log", "--format=%h %s", "--grep", "^verif:"],
                                   stdout=subprocess.PIPE).stdout.decode().strip().splitlines()
    checks = []
    for pid in ALL:
        if pid not in plans.PLANS:
            continue
        p = plans.PLANS[pid]
        checks.append({
            "property_id": pid,
            "quick_cmd": f"./check {pid} --tier quick",
            "thorough_cmd": f"./check {pid} --tier thorough",
            "evidence_file": f"/verif/evidence/{pid}.json",
            "replay_cmd_template": "./check replay {path}",
            "engine": p.get("engine", "vmon"),
            "level_claimed": {
                "category": p["level"],
                "text": p.get("level_text", "held on the executions explored by the monitors (counts, distinct states and samples in the evidence file); not a proof"),
                "design_ref": f"DESIGN.md §5 {pid}",
            },
            "level_note": p.get("level_note", "trusted base: the reference model / oracle of this property (harness/src), the hook commits in /repo, rustc; see DESIGN.md §2"),
            "technique": p["technique"],
        })
    na = []
    for pid in ALL:
        if pid in plans.PLANS:
            continue
        na.append({"property_id": pid, "reason": NOT_APPLICABLE.get(pid, "check not built yet (work in progress; see DESIGN.md)")})
    m = {
        "version": 1,
        "setup_cmd": "./check --setup",
        "hooks": {
            "guard": "cargo feature `verif` of crates llfree (core/) and llfree-eval (eval/)",
            "enable": "the harness crates depend on /repo/core with features = [\"std\", \"verif\"]; the replay binary is built with `cargo build -p llfree-eval --bin replay --features verif`",
            "baseline_off_cmd": "cd /repo && cargo test --workspace --no-fail-fast --offline",
            "source_commits": [c.split()[0] for c in hooks_commits],
            "add_only": True,
        },
        "engines": [
            {"name": "vmon", "path": "/verif/harness", "serves_properties": [c["property_id"] for c in checks],
             "kind_free_text": "Rust monitor binary: runs the real allocator under generated workloads with reference-model oracles, hooks, crash snapshots and a token scheduler"},
            {"name": "check", "path": "/verif/check", "serves_properties": [c["property_id"] for c in checks],
             "kind_free_text": "Python driver: builds from /repo's working tree, shards over 16 cores, merges reports, applies KNOWN_FINDINGS.txt, writes evidence"},
        ],
        "checks": checks,
        "not_applicable": na,
        "notes": "Runtime monitoring and sanitizers only. Exit 0 = held on everything explored, 1 = VIOLATION line, 2 = inconclusive/error (never a violation). Known findings: /verif/KNOWN_FINDINGS.txt.",
    }
    with open(os.path.join(VERIF, "MANIFEST.json"), "w") as f:
        json.dump(m, f, indent=1)
        f.write("\n")
    print(f"MANIFEST.json: {len(checks)} checks, {len(na)} not_applicable")


if __name__ == "__main__":
    main()
