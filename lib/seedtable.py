"""python3 -m lib.seedtable -- rewrite the table of seeded changes in DESIGN.md (between the markers) from seeded/*/meta.json"""
import glob, json, os, re
V = os.path.dirname(os.path.dirname(os.path.abspath(__file__)))
rows = []
for m in sorted(glob.glob(os.path.join(V, "seeded", "S*", "meta.json"))):
    j = json.load(open(m))
    caught = j["caught_by"].replace("|", "/")
    missed = " **First missed** — " + j["first_missed"].replace("|", "/") if j.get("first_missed") else ""
    rows.append(f"| {j['id']} | {j['breaks_property']} | {j['needs_to_manifest'].replace('|', '/')} | {caught}{missed} |")
table = "| Seeded change | Property | Needs, to manifest | Reported by |\n|---|---|---|---|\n" + "\n".join(rows) + "\n"
p = os.path.join(V, "DESIGN.md")
s = open(p).read()
a, b = "<!-- seeded-table-begin -->\n", "<!-- seeded-table-end -->\n"
if a not in s:
    s = s.rstrip("\n") + "\n\n" + a + b
s = s[: s.index(a) + len(a)] + table + s[s.index(b):]
open(p, "w").write(s)
print(len(rows), "rows")
