"""Building the monitor binaries from /repo's current working tree (offline)."""
import fcntl
import os
import subprocess
import sys
import time

VERIF = os.path.dirname(os.path.dirname(os.path.abspath(__file__)))
HARNESS = os.path.join(VERIF, "harness")
HARNESS_EVAL = os.path.join(VERIF, "harness-eval")
# The tree under test. Registered checks always use /repo. For trying the monitors against a
# scratch worktree (seeded changes) without touching /repo: VERIF_REPO=<dir>; the build output,
# run files, replays and evidence of such a run go to build/alt-<tag>/ (never to evidence/).
REPO = os.path.abspath(os.environ.get("VERIF_REPO", "/repo"))
ALT = REPO != "/repo"
BUILD = os.path.join(VERIF, "build")
if ALT:
    import hashlib
    BUILD = os.path.join(VERIF, "build", "alt-" + os.path.basename(REPO) + "-" + hashlib.sha1(REPO.encode()).hexdigest()[:6])

GEOMS = {
    "default": [],
    "th2": ["tree_huge_2"],
    "th1": ["tree_huge_1"],
    "th8": ["tree_huge_8"],
    "16k": ["16K"],
    "16k_th2": ["16K", "tree_huge_2"],
}
TRIPLE = "x86_64-unknown-linux-gnu"


def env_offline(extra=None):
    e = dict(os.environ)
    e["CARGO_NET_OFFLINE"] = "true"
    e.pop("RUSTFLAGS", None)
    e.pop("CARGO_TARGET_DIR", None)
    if extra:
        e.update(extra)
    return e


class BuildError(Exception):
    pass


def _alt(cmd):
    """cargo path override: the harness crates name /repo/core and /repo/eval"""
    if ALT and cmd[0] == "cargo":
        i = 2 if cmd[1].startswith("+") else 1
        if cmd[i] == "miri":
            i += 2  # `cargo miri run --config ..`: cargo-miri forwards it; in front of `miri` it is dropped
        cmd = cmd[:i] + ["--config", f'paths=["{REPO}/core","{REPO}/eval"]'] + cmd[i:]
    return cmd


def _run(cmd, cwd, env, log):
    cmd = _alt(cmd)
    os.makedirs(BUILD, exist_ok=True)
    lock = open(os.path.join(BUILD, ".lock-" + os.path.basename(log)), "w")
    fcntl.flock(lock, fcntl.LOCK_EX)
    try:
        with open(log, "w") as f:
            r = subprocess.run(cmd, cwd=cwd, env=env, stdout=f, stderr=subprocess.STDOUT)
        if r.returncode != 0:
            tail = open(log).read()[-3000:]
            raise BuildError(f"build failed: {' '.join(cmd)}\n{tail}")
    finally:
        fcntl.flock(lock, fcntl.LOCK_UN)
        lock.close()


def vmon(geom="default", profile="vdev", variant="plain"):
    """Build (if needed) and return the path of the vmon binary."""
    feats = GEOMS[geom]
    tdir = os.path.join(BUILD, f"t-{geom}" + ("" if variant == "plain" else f"-{variant}"))
    log = os.path.join(BUILD, f"build-{geom}-{profile}-{variant}.log")
    cmd = ["cargo"]
    env = env_offline()
    if variant == "plain":
        cmd += ["build", "--offline", "--profile", profile, "--target-dir", tdir]
        out = os.path.join(tdir, profile, "vmon")
    elif variant == "asan":
        cmd += ["+nightly", "build", "--offline", "--profile", profile, "--target-dir", tdir, "--target", TRIPLE]
        env["RUSTFLAGS"] = "-Zsanitizer=address -Cforce-frame-pointers=yes"
        out = os.path.join(tdir, TRIPLE, profile, "vmon")
    elif variant == "tsan":
        cmd += ["+nightly", "build", "--offline", "--profile", profile, "--target-dir", tdir, "--target", TRIPLE,
                "-Zbuild-std"]
        env["RUSTFLAGS"] = "-Zsanitizer=thread -Cforce-frame-pointers=yes"
        out = os.path.join(tdir, TRIPLE, profile, "vmon")
    else:
        raise BuildError(f"unknown variant {variant}")
    if feats:
        cmd += ["--features", ",".join(feats)]
    _run(cmd, HARNESS, env, log)
    if not os.path.exists(out):
        raise BuildError(f"binary missing after build: {out}")
    return out


def vmon_eval():
    tdir = os.path.join(BUILD, "t-eval")
    log = os.path.join(BUILD, "build-eval.log")
    _run(["cargo", "build", "--offline", "--profile", "vdev", "--target-dir", tdir], HARNESS_EVAL, env_offline(), log)
    return os.path.join(tdir, "vdev", "vmon-eval")


def replay_bin():
    """The repository's replay binary with the verif feature (event lines)."""
    tdir = os.path.join(BUILD, "t-replay")
    log = os.path.join(BUILD, "build-replay.log")
    _run(["cargo", "build", "--offline", "-p", "llfree-eval", "--bin", "replay", "--features", "verif",
          "--target-dir", tdir], REPO, env_offline(), log)
    return os.path.join(tdir, "debug", "replay")


def setup():
    """MANIFEST.setup_cmd: build every variant the quick tier needs (others are built on demand)."""
    t0 = time.time()
    todo = [("default", "vdev", "plain"), ("default", "vrel", "plain"), ("th2", "vdev", "plain"),
            ("th1", "vdev", "plain"), ("th8", "vdev", "plain"), ("16k", "vdev", "plain"), ("16k_th2", "vdev", "plain")]
    ok = True
    for g, p, v in todo:
        try:
            b = vmon(g, p, v)
            print(f"built {b}")
        except BuildError as e:
            print(f"ERROR {e}")
            ok = False
    for extra in SETUP_EXTRA:
        try:
            print(f"built {extra()}")
        except BuildError as e:
            print(f"ERROR {e}")
            ok = False
    print(f"setup done in {time.time() - t0:.0f}s")
    return 0 if ok else 2


SETUP_EXTRA = [vmon_eval, replay_bin, lambda: vmon('default', 'vdev', 'asan'), lambda: vmon('default', 'vdev', 'tsan')]
