"""Per-property check plans, shard execution, merging, verdicts."""
import array
import json
import os
import re
import shutil
import subprocess
import sys
import time
from concurrent.futures import ThreadPoolExecutor

from . import build, evidence, known

VERIF = build.VERIF
RUNDIR = os.path.join(build.BUILD, "run")
REPLAYS = os.path.join(VERIF, "replays") if not build.ALT else os.path.join(build.BUILD, "replays")
CORES = min(16, os.cpu_count() or 16)


# ------------------------------------------------------------------------------------------------
# Jobs

def job(engine, prop, geom="default", profile="vdev", variant="plain", shards=4, budget_s=20, args=(), env=None):
    return dict(engine=engine, prop=prop, geom=geom, profile=profile, variant=variant, shards=shards,
                budget_s=budget_s, args=list(args), env=env or {})


def seq_jobs(prop, tier, exh_depth=(2, 3), quick_s=25, thorough_s=300):
    """E1 seqmon for one property: random histories on several geometries/profiles plus the
    bounded-exhaustive part."""
    if tier == "quick":
        b = quick_s
        return [
            job("seq", prop, "default", "vdev", shards=5, budget_s=b),
            job("seq", prop, "default", "vrel", shards=3, budget_s=b),
            job("seq", prop, "th2", "vdev", shards=2, budget_s=b),
            job("seq", prop, "default", "vdev", shards=3, budget_s=b, args=["--exh", "--depth", str(exh_depth[0]), "--max-evals", "1"]),
            # the other compile-time geometries, one shard each (16 shards = one wave on 16 cores)
            job("seq", prop, "th1", "vdev", shards=1, budget_s=b),
            job("seq", prop, "th8", "vdev", shards=1, budget_s=b),
            job("seq", prop, "16k", "vdev", shards=1, budget_s=b),
        ]
    b = thorough_s
    js = [
        job("seq", prop, "default", "vdev", shards=5, budget_s=b),
        job("seq", prop, "default", "vrel", shards=2, budget_s=b),
        job("seq", prop, "default", "vdev", shards=4, budget_s=b,
            args=["--exh", "--thorough", "--depth", str(exh_depth[1]), "--max-evals", "1"]),
    ]
    for g in ("th2", "th1", "th8", "16k", "16k_th2"):
        js.append(job("seq", prop, g, "vdev", shards=1, budget_s=b))
    return js


# ------------------------------------------------------------------------------------------------
# Plans: property -> dict(jobs(tier), level, technique, rule, min_nontrivial, assumptions)

SEQ_RULE = ("sequential histories (bounded-exhaustive over an abstract alphabet + seeded random, instantiated against the "
            "model state) executed on the real allocator; every call judged and the full query set compared with the "
            "frame-ownership model after every call. distinct_nontrivial = distinct model states (hash of allocation "
            "bitmap + whole-huge flags + offline set) reached after a call")

COMMON_ASSUME = [
    "x86-64 host; the monitors observe executions of the compiled allocator built from /repo's working tree with cargo feature `verif`",
    "held on the executions listed here only; no claim about histories, frame counts or geometries not run",
]

PLANS = {}


def plan(prop, **kw):
    PLANS[prop] = kw


plan("C02", jobs=lambda tier: seq_jobs("C02", tier), level="exploration", rule=SEQ_RULE, min_nontrivial=2000,
     technique="runtime monitor: reference-model oracle over recorded sequential histories")
CONC_ADD = ("; plus the concurrent part: token-scheduler runs with 2-3 real threads (complete one-stall sweeps, bursts, random walks, PCT) and "
            "free-running threads with injected delays, each judged at the quiescent end of the run (full query set vs the ownership "
            "shadow, conservation after freeing everything) and at every successful allocation (reported class vs policy); their "
            "distinct (scenario, schedule) runs with a cross-thread conflict are added to distinct_nontrivial")
plan("C04", jobs=lambda tier: seq_plus_conc_jobs("C04", tier), level="exploration", rule=SEQ_RULE + CONC_ADD, min_nontrivial=2000,
     technique="runtime monitor: statistics/queries vs reference model at every quiescent point")
plan("C09", jobs=lambda tier: seq_jobs("C09", tier), level="exploration", rule=SEQ_RULE, min_nontrivial=2000,
     technique="runtime monitor: panic/abort capture around every call of generated histories")
plan("C10", jobs=lambda tier: seq_jobs("C10", tier), level="exploration", rule=SEQ_RULE, min_nontrivial=2000,
     technique="runtime monitor: reference-model oracle armed on the call following each drain")
plan("C13", jobs=lambda tier: seq_plus_conc_jobs("C13", tier), level="exploration", rule=SEQ_RULE + CONC_ADD, min_nontrivial=2000,
     technique="runtime monitor: reported class checked against the configured policy function")
plan("C14", jobs=lambda tier: seq_jobs("C14", tier), level="exploration", rule=SEQ_RULE, min_nontrivial=2000,
     technique="runtime monitor: arithmetic invariant on tree_stats() after every call")
plan("C15", jobs=lambda tier: seq_jobs("C15", tier), level="exploration", rule=SEQ_RULE, min_nontrivial=2000,
     technique="runtime monitor: reference model with offline set + tree entry snapshots around change_tree")


def unit_jobs(engine, prop, tier, quick_s=20, thorough_s=240, geoms=("th2", "th1", "th8", "16k", "16k_th2")):
    if tier == "quick":
        # the other compile-time geometries, one shard each (16 shards = one wave on 16 cores)
        js = [job(engine, prop, "default", "vdev", shards=12 - len(geoms), budget_s=quick_s),
              job(engine, prop, "default", "vrel", shards=4, budget_s=quick_s)]
        for g in geoms:
            js.append(job(engine, prop, g, "vdev", shards=1, budget_s=quick_s))
        return js
    js = [job(engine, prop, "default", "vdev", shards=8, budget_s=thorough_s, args=["--thorough"]),
          job(engine, prop, "default", "vrel", shards=3, budget_s=thorough_s, args=["--thorough"])]
    for g in geoms:
        js.append(job(engine, prop, g, "vdev", shards=1, budget_s=thorough_s, args=["--thorough"]))
    return js


def special_jobs(engine, prop, tier, quick_s=25, thorough_s=300, geoms=("th2", "th1", "th8", "16k", "16k_th2"), quick_geoms=("th2",)):
    if tier == "quick":
        js = [job(engine, prop, "default", "vdev", shards=7, budget_s=quick_s),
              job(engine, prop, "default", "vrel", shards=3, budget_s=quick_s)]
        for g in quick_geoms:
            js.append(job(engine, prop, g, "vdev", shards=2, budget_s=quick_s))
        # the other compile-time geometries, one shard each (16 shards = one wave on 16 cores)
        for g in ("th1", "th8", "16k", "16k_th2"):
            js.append(job(engine, prop, g, "vdev", shards=1, budget_s=quick_s))
        return js
    js = [job(engine, prop, "default", "vdev", shards=8, budget_s=thorough_s, args=["--thorough"]),
          job(engine, prop, "default", "vrel", shards=3, budget_s=thorough_s, args=["--thorough"])]
    for g in geoms:
        js.append(job(engine, prop, g, "vdev", shards=1, budget_s=thorough_s, args=["--thorough"]))
    return js


def classes_nontrivial(m):
    return max(m["extra"].get("x_distinct_classes", [0]))


plan("C23", jobs=lambda tier: unit_jobs("row", "C23", tier, geoms=()), level="exploration", min_nontrivial=500,
     nontrivial=classes_nontrivial,
     rule=("the compiled first_zeros_aligned (feature verif re-export) against a block-by-block reference loop on structured "
           "families (listed in observed_tuples; complete for the small block alphabets) and random/density-biased rows. "
           "distinct_nontrivial = distinct (order, returned offset or none, popcount of row) triples observed in one shard (maximum over shards, conservative)"),
     technique="runtime differential monitor: compiled row search vs reference loop on enumerated + random rows")
plan("C16", jobs=lambda tier: unit_jobs("sort", "C16", tier, geoms=("th2",)), level="exploration", min_nontrivial=100,
     nontrivial=classes_nontrivial,
     rule=("SortedBuffer<N> for N=1..8 on every key sequence of length <= 8 over domains of size 2..4 (complete) and random long "
           "sequences, against sort-and-take-top-N; Trees::search_best::<1|3|8> over 9-20 real trees with a recording access "
           "callback against a reference scan. distinct_nontrivial = distinct (capacity, sequence) cases longer than the capacity "
           "plus tree searches with more imperfect candidates than capacity, in one shard (maximum over shards)"),
     technique="runtime differential monitor: sorted buffer and tree search vs sort-and-take-N reference")
plan("C12", jobs=lambda tier: unit_jobs("lower", "C12", tier), level="exploration", min_nontrivial=30,
     nontrivial=classes_nontrivial,
     rule=("allocation patterns of one tree installed through the public lower-level API (each huge frame / aligned sub-block empty, "
           "full, whole-huge, single free, single allocated, random; exactly-one-free-block patterns at first/last/random position), "
           "then lower.get(row hint, order, None) for every order 0..TREE_ORDER from every row hint, judged by a reference scan of the "
           "pattern; success must mark exactly the returned block. distinct_nontrivial = distinct (order, found, row distance from hint) "
           "outcomes in one shard (maximum over shards)"),
     technique="runtime differential monitor: in-tree search vs reference scan of installed patterns")


plan("C06", jobs=lambda tier: special_jobs("init", "C06", tier, quick_s=60, thorough_s=600), level="exploration", min_nontrivial=500,
     rule=("for every frame count of the grid (default geometry: every count 1..4*TREE_FRAMES+HUGE_FRAMES+65; other geometries: +-65 around "
           "every huge-frame/tree boundary): FreeAll closed-form statistics + full model comparison + targeted allocation of every frame "
           "(frames beyond rejected) + exhaustion at order 0 + exhaustion with descending orders; AllocAll: nothing free, every whole huge "
           "frame / remaining base frame freeable exactly once, then identical to FreeAll. distinct_nontrivial = distinct (geometry, frame count) pairs completed"),
     technique="runtime monitor: closed-form + reference-model oracle over an enumerated frame-count grid")
plan("C07", jobs=lambda tier: special_jobs("handoff", "C07", tier), level="exploration", min_nontrivial=200, rule=SEQ_RULE +
     "; here each evaluation is one hand-off (byte copies of the three buffers, Init::None) followed by an identical continuation on original and copy, comparing every result and the full query set",
     technique="runtime differential monitor: original vs Init::None copy in lock-step")
plan("C08", jobs=lambda tier: special_jobs("invalid", "C08", tier), level="exploration", min_nontrivial=200, rule=SEQ_RULE +
     "; here the histories end in the complete grid of invalid/boundary requests (orders 0..TREE_ORDER+3 x boundary frames x get/get_at/put, classes 0..7), plus buffer-construction cases and zone-offset probes",
     technique="runtime monitor: enumerated invalid-argument grid with before/after state comparison")
plan("C11", jobs=lambda tier: special_jobs("single", "C11", tier), level="exploration", min_nontrivial=200, rule=SEQ_RULE +
     "; here every history uses one class with one slot and base-order requests only: exhaust, free a subset (through the slot or without; boundary rounds free 1-3 frames without slot into the slot's reserved tree), allocate until Memory",
     technique="runtime monitor: reference-model oracle on single-slot exhaustion histories")
plan("C17", jobs=lambda tier: special_jobs("wrappers", "C17", tier), level="exploration", min_nontrivial=200, rule=SEQ_RULE +
     "; here ZoneAlloc runs in lock-step with an identical inner allocator, and NvmAlloc zones (real memory at tree-aligned addresses) are created, exhausted (every frame checked against the metadata/header address range), driven, dropped and recovered",
     technique="runtime differential monitor (zone wrapper) + address-range oracle and recover/compare (persistent wrapper)")


SCHED_RULE = ("2-3 real threads on one real allocator; the interleaving is injected at the hook before every atomic access "
              "(token scheduler): for every generated scenario the complete one-stall sweep (every thread stalled at every one of its "
              "gates while the others run to completion), plus bounded-burst stalls, random walks and PCT-style priority schedules; "
              "ownership shadow (insert at return / remove at call), panic capture, policy check, quiescent end-of-run comparison with "
              "the model and conservation. distinct_nontrivial = distinct (scenario, schedule) runs in which two threads touched the "
              "same word back to back with at least one write (capped per shard; conservative)")


def free_jobs(prop, tier, shards, quick_s=40, thorough_s=600):
    """free-running threads (no token; pseudo-random delays injected at the hook; ownership tags)"""
    if tier == "quick":
        return [job("free", prop, "default", "vdev", shards=shards, budget_s=quick_s, args=["--iters", "1500"])]
    return [job("free", prop, "default", "vdev", shards=shards, budget_s=thorough_s, args=["--iters", "3000"]),
            job("free", prop, "default", "vrel", shards=1, budget_s=thorough_s, args=["--iters", "3000"]),
            job("free", prop, "th2", "vdev", shards=1, budget_s=thorough_s, args=["--iters", "3000"])]


def sched_jobs(prop, tier, quick_s=40, thorough_s=600, free=0):
    if tier == "quick":
        js = [job("sched", prop, "default", "vdev", shards=8 - free, budget_s=quick_s),
              job("sched", prop, "default", "vrel", shards=4, budget_s=quick_s),
              job("sched", prop, "th2", "vdev", shards=4, budget_s=quick_s)]
        if free:
            js += free_jobs(prop, tier, free, quick_s, thorough_s)
        return js
    js = [job("sched", prop, "default", "vdev", shards=6, budget_s=thorough_s, args=["--thorough"]),
          job("sched", prop, "default", "vrel", shards=3, budget_s=thorough_s, args=["--thorough"]),
          job("sched", prop, "th2", "vdev", shards=2, budget_s=thorough_s, args=["--thorough"])]
    for g in ("th1", "th8", "16k", "16k_th2"):
        js.append(job("sched", prop, g, "vdev", shards=1, budget_s=thorough_s, args=["--thorough"]))
    if free:
        js += free_jobs(prop, tier, free + 1, quick_s, thorough_s)
    return js


def seq_plus_conc_jobs(prop, tier):
    """sequential histories plus the concurrent part of the property: token-scheduler runs (quiescent
    end-of-run comparison / policy check) and free-running threads"""
    js = seq_jobs(prop, tier)
    if tier == "quick":
        js += [job("sched", prop, "default", "vdev", shards=8, budget_s=25),
               job("sched", prop, "th2", "vdev", shards=3, budget_s=25)]
        js += free_jobs(prop, tier, 5, quick_s=25)
    else:
        js += [job("sched", prop, "default", "vdev", shards=8, budget_s=300, args=["--thorough"]),
               job("sched", prop, "default", "vrel", shards=2, budget_s=300, args=["--thorough"]),
               job("sched", prop, "th2", "vdev", shards=2, budget_s=300, args=["--thorough"])]
        js += free_jobs(prop, tier, 2, thorough_s=300)
    return js


plan("C01", jobs=lambda tier: sched_jobs("C01", tier, free=3), level="exploration", rule=SCHED_RULE, min_nontrivial=500,
     technique="runtime monitor: ownership shadow over schedules injected at the atomic hook (stall sweep, PCT, random walk)")
plan("C03", jobs=lambda tier: sched_jobs("C03", tier, free=3), level="exploration", rule=SCHED_RULE, min_nontrivial=500,
     technique="runtime monitor: panic capture + ownership shadow over injected schedules")
def c05_jobs(tier):
    if tier == "quick":
        return [job("seq", "C05", "default", "vdev", shards=5, budget_s=40),
                job("seq", "C05", "th2", "vdev", shards=2, budget_s=40),
                job("seq", "C05", "default", "vdev", shards=2, budget_s=40, args=["--exh", "--depth", "2", "--max-evals", "1"]),
                job("sched", "C05", "default", "vdev", shards=5, budget_s=40),
                job("sched", "C05", "th2", "vdev", shards=2, budget_s=40)]
    b = 600
    js = [job("seq", "C05", "default", "vdev", shards=4, budget_s=b),
          job("seq", "C05", "default", "vrel", shards=1, budget_s=b),
          job("seq", "C05", "default", "vdev", shards=2, budget_s=b, args=["--exh", "--thorough", "--depth", "3", "--max-evals", "1"]),
          job("sched", "C05", "default", "vdev", shards=4, budget_s=b, args=["--thorough"])]
    for g in ("th2", "th1", "th8", "16k"):
        js.append(job("seq", "C05", g, "vdev", shards=1, budget_s=b))
    js.append(job("sched", "C05", "th2", "vdev", shards=1, budget_s=b, args=["--thorough"]))
    return js


plan("C05", jobs=c05_jobs, level="fault_enumeration", min_nontrivial=500,
     nontrivial=lambda m: int(m["crash_points"]),
     rule=("a crash point = a copy of the persistent (lower) buffer taken at the hook immediately before an atomic write into it (and after the "
           "completed call), in sequential histories (all crash points of each call, capped at 24 evenly spaced per call) and in token-scheduler "
           "runs with 2-3 threads (every gated persistent write; all other threads parked at their gates). For each crash point a fresh allocator is "
           "recovered from the copy alone (Init::Recover, zeroed volatile buffers) and judged: completed allocations still allocated and freeable, "
           "untouched free frames free (in-flight calls tolerated only inside the blocks they name / one aligned block of the requested order), "
           "fast == exact count, validate(). distinct_nontrivial = number of crash points judged (each is a distinct (history prefix, write index) pair)"),
     technique="fault enumeration by runtime monitoring: crash snapshots at every hooked persistent write + recovery oracle")
plan("C21", jobs=lambda tier: sched_jobs("C21", tier), level="exploration", min_nontrivial=500,
     rule=SCHED_RULE + "; here every run freezes all threads at one gate p of a random-walk schedule (every gate of small scenarios, sampled for larger) and runs each in-flight call alone under a step budget of 20000 atomic accesses",
     technique="runtime monitor: bounded-progress (step budget) oracle in solo mode of the token scheduler")


plan("C19", jobs=lambda tier: [job("class", "C19", "eval", "vdev", "eval", shards=16, budget_s=40 if tier == "quick" else 300,
                                   args=["--thorough"] if tier == "thorough" else [])],
     level="exploration", min_nontrivial=200, nontrivial=classes_nontrivial,
     rule=("class configurations built as JSON and parsed by the repository's own ClassingConfig: every combination of slot-count kinds "
           "{zero, one, cores, cores_half, pids} for 1-4 classes (distinct ids, 4 matcher styles) plus the shipped results/classes*.json; for "
           "cores 1..16, cores/pids 0..64, orders 0..10 and 6 GFP flag sets every generated request is checked (class configured, slot below the "
           "class's slot count) and a subset is used with a real allocator (no panic, no Argument error). distinct_nontrivial = distinct "
           "(configuration, cores, class, slot present) outcomes in one shard (maximum over shards)"),
     technique="runtime monitor: direct check of generated requests + real allocator calls over an enumerated configuration grid")


def _c18(prop, tier, seed, t0):
    from . import memcheck
    import sys
    return memcheck.run(prop, tier, seed, t0, sys.modules[__name__])


plan("C18", custom=_c18, level="exploration", min_nontrivial=100,
     rule=("the tools are the oracle: (1) every native shard runs with exact-size metadata buffers flush against PROT_NONE guard pages (end- and "
           "start-flush placements, zero-sized buffers point to the guard page); (2) the same sequential / invalid-buffer / free-running / token-"
           "scheduler workloads under AddressSanitizer with exact-size heap buffers; (3) free-running and token-scheduler threads under "
           "ThreadSanitizer; (4) Miri on reduced programs (initialisation grid incl. frames=0 and empty buffers through MetaData::alloc, short "
           "histories with re-initialisation, invalid buffers, 2-3 threads with many seeds). distinct_nontrivial = distinct model states reached "
           "by the native/ASan histories plus Miri programs that ran clean to the end"),
     technique="sanitizers: guard pages + AddressSanitizer + ThreadSanitizer + Miri over the monitors' workloads")


def _c20(prop, tier, seed, t0):
    from . import tracemon
    import sys
    return tracemon.run(prop, tier, seed, t0, sys.modules[__name__])


plan("C20", custom=_c20, level="exploration", min_nontrivial=200,
     rule=("synthetic trace files in the replay binary's own format (enumerated: one allocation of order 1..4, every partial free order/position, "
           "remaining parts in all permutations / rotations; seeded random: orders 0..10, 1-4 cores, whole and partial frees first/middle/last, "
           "frees of unknown pfns, re-allocations of a live pfn) run through the real replay binary built with feature verif; its per-call event "
           "lines, error log and final JSON are judged against a trace model. distinct_nontrivial = distinct traces (event kind/order sequences) replayed"),
     technique="runtime monitor: trace model over the replay binary's event lines and output")


# ------------------------------------------------------------------------------------------------
# Execution

def binary_for(j):
    if j["engine"] == "class":
        return build.vmon_eval()
    return build.vmon(j["geom"], j["profile"], j["variant"])


def run_shard(binpath, j, idx, seed, outdir):
    out = os.path.join(outdir, f"{j['engine']}-{j['geom']}-{j['profile']}-{j['variant']}-{j['tag']}-{idx}.json")
    cmd = [binpath, j["engine"], "--prop", j["prop"], "--seed", str(seed), "--shard", f"{idx}/{j['shards']}",
           "--budget-ms", str(int(j["budget_s"] * 1000)), "--out", out, "--replay-dir", REPLAYS] + j["args"]
    env = dict(os.environ)
    env.update(j["env"])
    t0 = time.time()
    timeout = j["budget_s"] * 4 + 120
    try:
        r = subprocess.run(cmd, env=env, stdout=subprocess.PIPE, stderr=subprocess.PIPE, timeout=timeout)
        err = r.stderr.decode(errors="replace")
        if len(err) > 16000:  # keep the head (sanitizer report headers) and the tail
            err = err[:10000] + "\n[...]\n" + err[-6000:]
        rc = r.returncode
    except subprocess.TimeoutExpired:
        rc, err = "timeout", f"watchdog fired after {timeout}s"
    rep = None
    if os.path.exists(out):
        try:
            rep = json.load(open(out))
        except Exception as e:  # noqa: BLE001
            err += f"\nunreadable report: {e}"
    return dict(job=j, idx=idx, rc=rc, stderr=err, report=rep, wall=time.time() - t0, cmd=" ".join(cmd),
                states_file=out + ".states")


def merge(results):
    m = dict(evaluations=0, calls=0, crash_points=0, counters={}, tuples=set(), states=set(), samples=[], violations=[],
             others={}, notes=[], per_job={}, shard_failures=[], extra={})
    for r in results:
        j = r["job"]
        key = f"{j['engine']}/{j['geom']}/{j['profile']}/{j['variant']}" + ("/exh" if "--exh" in j["args"] else "")
        pj = m["per_job"].setdefault(key, dict(shards=0, evaluations=0, calls=0))
        pj["shards"] += 1
        rep = r["report"]
        if r["rc"] != 0 or rep is None:
            m["shard_failures"].append(dict(job=key, shard=r["idx"], rc=r["rc"], stderr=r["stderr"][-1500:], cmd=r["cmd"]))
            if rep is None:
                continue
        pj["evaluations"] += rep.get("evaluations", 0)
        pj["calls"] += rep.get("calls", 0)
        m["evaluations"] += rep.get("evaluations", 0)
        m["calls"] += rep.get("calls", 0)
        m["crash_points"] += rep.get("crash_points", 0)
        for k, v in rep.get("counters", {}).items():
            m["counters"][k] = m["counters"].get(k, 0) + v
        m["tuples"].update(f"{j['geom']}:{t}" if False else t for t in rep.get("tuples", []))
        sf = r.get("states_file")
        if sf and os.path.exists(sf):
            arr = array.array("Q")
            arr.frombytes(open(sf, "rb").read())
            salt = hash(j["geom"]) & 0xFFFF
            m["states"].update((x ^ salt) for x in arr)
        if len(m["samples"]) < 8:
            for s in rep.get("samples", [])[:2]:
                if isinstance(s, dict):
                    s = dict(s)
                    s["job"] = key
                m["samples"].append(s)
        for v in rep.get("violations", []):
            v = dict(v)
            v["job"] = key
            m["violations"].append(v)
        for k, o in rep.get("other_properties", {}).items():
            e = m["others"].setdefault(k, dict(count=0, first=o.get("first", "")))
            e["count"] += o.get("count", 0)
        m["notes"] += rep.get("notes", [])
        for k, v in rep.items():
            if k.startswith("x_"):
                m["extra"].setdefault(k, []).append(v)
    return m


def run_jobs(jobs, seed, prop):
    outdir = os.path.join(RUNDIR, prop)
    shutil.rmtree(outdir, ignore_errors=True)
    os.makedirs(outdir, exist_ok=True)
    os.makedirs(REPLAYS, exist_ok=True)
    # builds (sequential, cached)
    bins = {}
    for n, j in enumerate(jobs):
        j["tag"] = str(n)
        k = (j["geom"], j["profile"], j["variant"])
        if k not in bins:
            bins[k] = binary_for(j)
    tasks = []
    for j in jobs:
        for i in range(j["shards"]):
            tasks.append((bins[(j["geom"], j["profile"], j["variant"])], j, i))
    results = []
    with ThreadPoolExecutor(max_workers=CORES) as ex:
        futs = [ex.submit(run_shard, b, j, i, seed, outdir) for (b, j, i) in tasks]
        for f in futs:
            results.append(f.result())
    return results


def finish(prop, tier, seed, t0, m, nontrivial, rule, extra_cov=None, min_nontrivial=2, exhaustive=None):
    """Apply known findings, write evidence, print the verdict; returns the exit code."""
    p = PLANS[prop]
    kf = known.load()
    viols, known_hits = known.split(prop, m["violations"], kf)
    cov = dict(
        evaluations=int(m["evaluations"]),
        distinct_nontrivial=int(nontrivial),
        rule=rule,
        samples=m["samples"][:8] or ["<none>"],
        calls=int(m["calls"]),
        counters=m["counters"],
        per_job=m["per_job"],
        observed_tuples=sorted(m["tuples"])[:200],
        violations_of_other_properties_seen=m["others"],
        known_findings_reproduced={k: len(v) for k, v in known_hits.items()},
        shard_failures=len(m["shard_failures"]),
        tools=dict(rustc=_tool_version()),
    )
    if m["crash_points"]:
        cov["crash_points"] = int(m["crash_points"])
    if exhaustive is not None:
        cov["exhaustive"] = bool(exhaustive)
    if extra_cov:
        cov.update(extra_cov)
    wall = time.time() - t0
    path = evidence.write(prop, tier, seed, p["level"], cov, COMMON_ASSUME + p.get("assumptions", []), wall, len(viols))
    print(f"[{prop}] tier={tier} seed={seed} evaluations={m['evaluations']} calls={m['calls']} "
          f"distinct_nontrivial={nontrivial} wall={wall:.0f}s evidence={path}")
    for k, o in sorted(m["others"].items()):
        print(f"NOTE: {o['count']} observation(s) contradicting {k} seen while checking {prop} (decided by that property's own check); first: {o['first'][:200]}")
    for f in m["shard_failures"][:5]:
        print(f"SHARD-FAILURE: {f['job']} shard {f['shard']} rc={f['rc']}: {f['stderr'][-600:].strip()}")
    for entry, e in enumerate(kf):
        if e["prop"] == prop:
            print(f"KNOWN-FINDING: property={prop} {e['text']} (reproduced={len(known_hits.get(entry, []))} in this run)")
    if viols:
        seen = set()
        for v in viols:
            sig = re.sub(r"\d+", "N", v["message"])[:160]
            if sig in seen:
                continue
            seen.add(sig)
            if len(seen) > 12:
                break
            print(f"VIOLATION property={prop} replay={v.get('replay') or '<none>'}")
            print(f"  {v.get('job', '')}: {v['message'][:600]}")
        return 1
    if m["shard_failures"]:
        print(f"INCONCLUSIVE property={prop}: {len(m['shard_failures'])} shard(s) failed (crash, timeout or harness error)")
        return 2
    if nontrivial < min_nontrivial or m["evaluations"] == 0:
        print(f"INCONCLUSIVE property={prop}: observed only {nontrivial} non-trivial cases (minimum {min_nontrivial})")
        return 2
    print(f"OK property={prop}: held on everything explored")
    return 0


_TV = None


def _tool_version():
    global _TV
    if _TV is None:
        try:
            _TV = subprocess.run(["rustc", "--version"], cwd=build.HARNESS, stdout=subprocess.PIPE).stdout.decode().strip()
        except Exception:  # noqa: BLE001
            _TV = "unknown"
    return _TV


def run_check(prop, tier, seed):
    t0 = time.time()
    p = PLANS[prop]
    try:
        if "custom" in p:
            return p["custom"](prop, tier, seed, t0)
        jobs = p["jobs"](tier)
        results = run_jobs(jobs, seed, prop)
    except build.BuildError as e:
        print(f"ERROR property={prop}: {e}")
        return 2
    m = merge(results)
    nontrivial = p.get("nontrivial", lambda m: len(m["states"]))(m)
    exhaustive = None
    return finish(prop, tier, seed, t0, m, nontrivial, p["rule"], min_nontrivial=p.get("min_nontrivial", 2) if tier == "quick" else p.get("min_nontrivial", 2),
                  exhaustive=exhaustive)


def replay(path):
    try:
        j = json.load(open(path))
    except Exception as e:  # noqa: BLE001
        print(f"ERROR cannot read {path}: {e}")
        return 2
    if j.get("engine") == "trace":
        from . import tracemon
        return tracemon.replay(path, j)
    geom = {"4K_frames_tree_huge_4": "default", "4K_frames_tree_huge_2": "th2", "4K_frames_tree_huge_1": "th1",
            "4K_frames_tree_huge_8": "th8", "16K_frames_tree_huge_4": "16k", "16K_frames_tree_huge_2": "16k_th2"}.get(
        j.get("geometry", ""), "default")
    try:
        b = build.vmon(geom, j.get("profile", "vdev"), "plain")
    except build.BuildError as e:
        print(f"ERROR {e}")
        return 2
    out = os.path.join(build.BUILD, "replay-out.json")
    r = subprocess.run([b, "replay", "--file", path, "--out", out, "--replay-dir", os.path.join(build.BUILD, "replay-tmp")])
    if r.returncode != 0 or not os.path.exists(out):
        print(f"replay process exited with {r.returncode}")
        return 1 if r.returncode in (77, 78) else 2
    rep = json.load(open(out))
    for v in rep.get("violations", []):
        print(f"VIOLATION property={v['property']} replay={path}")
        print(f"  {v['message'][:800]}")
    if rep.get("violations"):
        return 1
    print("replay: no violation reproduced")
    return 0
