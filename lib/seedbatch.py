"""python3 -m lib.seedbatch  -- store verified seeded changes (table below) under /verif/seeded/<id>/.
Only entries whose <out>/verify.log shows: suite 51/0 twice, demo fails with / passes without the patch."""
import json, os, re, shutil, sys

TABLE = [
 # (sid, out dir key, property, needs, caught_by, first_missed?)
 ("S06-C02-toggle-undo-index", "C02", "C02", "failing free / targeted allocation of order 7-8 whose block is not the first of its huge frame and whose first row matches while a later row does not (undo loop of the multi-row toggle indexes rows from 0)", "C02 quick: VIOLATION (seq: per-frame status differs from the model after a failing put)", ""),
 ("S07-C03-set-start-tree-check", "C03", "C03", "two threads sharing one local slot; A delayed between its local counter decrement and set_start while B replaces the slot's reservation", "C03 quick: VIOLATION (free-running + sched: drain/put panics `Unreserve failed` / counter assertion)", ""),
 ("S08-C05-recover-skip-full-trees", "C05", "C05", "crash between the counter decrement and the undo increment of a failing allocation in a tree that is otherwise full; recovery skips trees whose counters are all 0", "C05 quick: VIOLATION (seq crash points: free frame allocated after recovery)", ""),
 ("S09-C06-allocall-partial-bitfield", "C06", "C06", "Init::AllocAll with a frame count that is not a multiple of 512, then base-order frees inside the partial last huge frame", "C06 quick: VIOLATION after strengthening (frames beyond the managed count reported free / handed out after AllocAll + frees)", "missed by the first C06 monitor: the AllocAll part did not look beyond the managed count after frees; added: beyond-range status after freeing, exhaustion after AllocAll+free-all, partial-last-huge-frame free/re-allocate round"),
 ("S10-C07-none-drops-demoted-reservation", "C07", "C07", "hand-off (Init::None) while a local slot holds a reservation obtained by demotion (tree entry still carries the higher class)", "C07 quick: VIOLATION (handoff: copy reports different tree_stats right after the hand-off)", ""),
 ("S11-C08-alignment-check-moved", "C08", "C08", "targeted get of order >= 1 with a misaligned in-range frame whose tree is reserved by another slot with enough local frames (steal_local/demote_local do not undo on Argument)", "C08 quick: VIOLATION (invalid grid: wrong error kind / state change)", ""),
 ("S12-C09-slot-iteration-chain", "C09", "C09", "classing whose classes have different slot counts (or zero slots) and a request with slot index above the target class's slot count falling through to steal_any/demote_any", "C09 quick: VIOLATION (seq: index out of bounds panic in local.rs)", ""),
 ("S13-C10-drain-skips-empty-reservations", "C10", "C10", "slot with local counter exactly 0 keeps its reservation through drain; frames freed into that tree without the slot are unreachable for other slots / targeted gets", "C10 quick: VIOLATION (seq: targeted get right after drain fails although block free)", ""),
 ("S14-C11-sync-upper-bound", "C11", "C11", "slot's reserved tree has local counter 0, >= TREE_FRAMES/2 frames of it freed without the slot, no other tree has a free frame", "C11 quick: VIOLATION after strengthening (single-slot get fails with 1024-2048 frames free)", "missed by the first C11 monitor: boundary rounds freed only 1-3 frames into the reserved tree and random rounds always freed into several trees; added: one-tree free rounds of n up to the whole tree (around row / huge / half-tree boundaries), reserved tree taken from trees.stats_at"),
 ("S15-C14-alloc-sub-on-slot-class", "C14", "C14", "reservation demoted in place (slot class != tree class) and the slot's class has fewer allocated frames than the slot's free counter (saturating_sub)", "C14 quick: VIOLATION (seq: sum over classes of free+alloc != trees*TREE_FRAMES)", ""),
 ("S16-C15-steal-local-filter", "C15", "C15", "tree offline, some slot holds a reservation with >= 2^order frames, targeted allocation into the offline tree (Option::filter turns the tree filter into `any tree`)", "C15 quick: VIOLATION (seq: allocation returned a frame from an offline tree)", ""),
 ("S17-C16-search-best-reverse-key", "C16", "C16", "one search_best call with more than N imperfect candidates of different ratings (key wrapped in Reverse: keeps the lowest rated)", "C16 quick: VIOLATION (sortmon: access order vs reference)", ""),
 ("S18-C18-trees-metadata-lines", "C18", "C18", "partial last tree and frames/TREE_FRAMES a positive multiple of 16 (e.g. 32769..34815 frames): trees buffer one entry short", "C18 quick: VIOLATION after strengthening (sizes engine: guard page / ASan in Trees::new)", "see meta.json"),
 ("S19-C01-split-marker-first", "C01b", "C01", "T1 put(order 0) into a whole huge frame delayed after the marker CAS before the row fill reaches row r; T2 frees another part; a targeted get into an unfilled row then returns a frame of the still-allocated rest", "C01 quick: VIOLATION after strengthening (sched split-race: GetAt returns a frame overlapping a held block); also C05 quick (crash after marker clear)", "missed by the first C01 plan: the split-race family was only part of C03/C05/C21 and had no targeted allocations into the huge frame being split; added: split-race in C01 with GetAt ops into that huge frame"),
 ("S20-C05-recover-counter-fastpath", "C05b", "C05", "two threads: A's put_small stopped between clearing the bit and incrementing the counter, B allocates that frame; crash: counter 0 with one zero bit; recovery trusts counter 0", "C05 quick: VIOLATION (crash points: free frame allocated after recovery)", ""),
 ("S21-C19-cores-half-slot", "C19", "C19", "class with count kind cores_half, even core count, call from the last core (slot == slot count)", "C19 quick: VIOLATION (classmon grid)", ""),
 ("S22-C20-found-order", "C20", "C20", "partial free of a larger allocation where the freed part lies in the lower half, then frees of the remaining parts", "C20 quick: VIOLATION (tracemon: traced free reported unknown)", ""),
 ("S24-C23-merged-byte-arms", "C23", "C23", "orders 4/5 and rows whose lowest candidate block consists of 0x00/0x01 bytes with borrow propagation", "C23 quick: VIOLATION (rowmon vs reference loop)", ""),
 ("S25-C04-drain-load-store", "C04b", "C04", "drain() racing a counter update of the same local slot between drain's load and its store", "C04 quick: VIOLATION (sched stall sweep, quiescent end-of-run: fast != exact)", ""),
 ("S26-C13-steal-any-demote", "C13b", "C13", "request falls through to steal_any and another class's slot rated Demote still has frames (exhaustion or targeted get into a tree reserved by a higher class)", "C13 quick: VIOLATION (seq: reported class not permitted)", ""),
 ("S27-C12-no-wraparound", "C12b", "C12", "orders 0-6, row hint not the first row of its huge frame, every free aligned block lies in the hinted huge frame before the hinted row", "C12 quick: VIOLATION (lowermon)", ""),
 ("S28-C17-header-frames-after-split", "C17b", "C17", "recover=true on a region one frame longer/shorter than the instance at a metadata-page-count boundary (e.g. 26112 vs 26113 frames)", "C17 quick: VIOLATION after strengthening (tail transplant: instance of T frames recovered in a region of T+1 frames)", "missed by the first C17 monitor: other-length recoveries were only tried on zones of 1-3 trees, far from any metadata-page-count boundary, and only on live mappings sharing a start; added: page-count boundaries computed from metadata_size, persistent tail copied to the end of regions of T-2..T+2, T+HUGE, T+TREE frames (must be refused) and of another region of T frames (must recover the same state)"),
 ("S29-C02-multi-huge-put-no-rollback", "C02b", "C02", "failing put at order > HUGE_ORDER whose first covered huge frame is whole-allocated and a later one is not", "C02 quick: VIOLATION (seq: status changed across failing put)", ""),
 ("S30-C03-drain-stale-unreserve", "C03b", "C03", "drain racing another operation on the same slot between drain's load and swap", "C03 quick: VIOLATION (sched/free-running: panic in Tree::put / Unreserve failed)", ""),
 ("S31-C09-change-reserved-by-id", "C09b", "C09", "change_tree naming a reserved tree by id (online or class change) then drain / slot swap", "C09 quick: VIOLATION (seq: panic `unreserve invalid class` / counter assertion); also C15", ""),
 ("S32-C18-locals-stride", "C18b", "C18", "classing whose classes have different slot counts; any access to the last slot of a later class", "C18 quick: VIOLATION (guard page in every native shard, ASan)", ""),
 ("S33-C08-range-check-first-frame", "C08b", "C08", "order > 0, aligned frame f < frames < f + 2^order (partial last tree / huge frame / row)", "C08 quick: VIOLATION (invalid grid)", ""),
 ("S34-C15-class-change-reloads-counter", "C15b", "C15", "offline a free tree, then change_tree with operation None (class only) on it: counter reloaded, tree silently online", "C15 quick: VIOLATION (seq: tree entry after change)", ""),
 ("S35-C01-cas-all-rollback-inclusive", "C01c", "C01", "two threads in compare_exchange_all on overlapping huge entries (order >= 9): B passes the pre-check, is delayed before a CAS, A allocates that entry; B's rollback (inclusive range) frees A's live huge frame", "C01 quick: VIOLATION (sched multi-huge: returned block overlaps a held block)", ""),
 ("S36-C04-steal-undo-dropped", "C04c", "C04", "request with a slot whose reservation cannot serve it lands on a tree of another class rated Steal with counter >= 2^order but fragmented: failed lower allocation, counter not given back", "C04 quick: VIOLATION (seq: fast != exact)", ""),
 ("S37-C05-recover-rolls-split-forward", "C05c", "C05", "crash after the 1st and before the 8th row CAS of the bitfield fill of a partial free of a whole huge frame; recovery rolls the split forward from a partly filled bitfield", "C05 quick: VIOLATION (seq crash points: frame of a completed allocation free after recovery)", ""),
 ("S38-C13-demote-partial-as-steal", "C13c", "C13", "slot's reservation exhausted, no free tree and no tree of the requested class, an unreserved partially free tree of a higher class rated Demote: frames taken, higher class reported", "C13 quick: VIOLATION (seq + sched: reported class not permitted)", ""),
 ("S39-C23-order1-gives-up", "C23b", "C23", "order 1 and a row whose lowest pair with a free even bit has its odd bit set while a free pair exists above", "C23 quick: VIOLATION (rowmon)", ""),
 ("S40-C12-huge-scan-wrap-len", "C12c", "C12", "partial last tree with exactly 3 whole huge frames, order HUGE_ORDER+1, row hint in the second half of the tree", "C12 quick: VIOLATION (lowermon: unaligned block returned / Memory although a pair is free)", ""),
 ("S41-C18-stats-non-atomic-read", "C18c", "C18", "one thread in stats() (plain reads of the huge-entry tables) while another thread's get/put updates them atomically: data race, silent on x86-64", "C18 quick: VIOLATION after strengthening (ThreadSanitizer data race in the free-running workload)", "missed by the first C18 workloads: no concurrent workload issued statistics queries (and the plain reads bypass the hook, so no hook-based monitor can see them); added: free-running threads also call stats / tree_stats / stats_at / lower.is_free concurrently (under TSan and Miri)"),
 ("S42-C06-freeall-last-table-remainder", "C06b", "C06", "Init::FreeAll with a frame count whose last tree ends inside a huge frame and has further table entries behind it (e.g. 1, 63, 513, 2148)", "C06 quick: VIOLATION (init grid)", ""),
 ("S43-C07-none-masks-tail", "C07b", "C07", "hand-off of a region whose length is not a multiple of 512 while frames of the partial last huge frame are free; continuation reaching that huge frame", "C07 quick: VIOLATION (handoff: per-frame status differs right after the hand-off)", ""),
 ("S44-C10-search-skips-start-tree", "C10b", "C10", "after drain the only tree that can serve a slot's base-order request is its aligned start tree, usable only via Demote (partially filled) or Steal", "C10 quick: VIOLATION (seq: base-order get right after drain fails)", ""),
 ("S45-C14-reserved-tree-global-counter", "C14b", "C14", "reserved tree with a non-zero global counter (frames freed without naming the slot)", "C14 quick: VIOLATION (seq: sum over classes)", ""),
 ("S46-C16-sortedbuffer-fastpath-overwrites-max", "C16b", "C16", "a candidate strictly better than every remembered one arrives while the buffer is exactly full", "C16 quick: VIOLATION (sortmon: SortedBuffer vs sort-and-take-N)", ""),
 ("S47-C19-fallback-slot-from-first-class", "C19b", "C19", "(order, gfp) matching no configured class, default class not the first and with fewer slots than the first class's kind", "C19 quick: VIOLATION (classmon grid)", ""),
 ("S48-C20-split-part-frame-stride", "C20b", "C20", "allocation of order >= 2, covered free of order 1 <= e < order (split), later free of a remaining part with index >= 1", "C20 quick: VIOLATION (tracemon: replayer frees another frame)", ""),
 ("S49-C21-drain-waits-for-reserved-flags", "C21b", "C21", "thread frozen between setting a tree's reserved flag and writing the slot (or between emptying the slot and unreserve); drain() run alone spins", "C21 quick: VIOLATION (solo mode: step budget exceeded in drain)", ""),
 ("S50-C02-get-at-bits-before-counter", "C02c", "C02", "failing targeted small get inside a whole-allocated huge frame leaves the bits set under the huge marker; shows after the huge frame is freed and reused, or as a panic on the next split", "C02 quick: VIOLATION (seq)", ""),
 ("S51-C17-zone-target-below-offset", "C17c", "C17", "ZoneAlloc/NvmAlloc with non-zero offset, targeted get with a frame below the offset while a free block exists", "C17 quick: VIOLATION (wrappers: frame below the offset accepted)", ""),
 ("S52-C10-demote-undo-order-not-frames", "C10c", "C10", "failing targeted get of a lower class into a tree reserved by a higher class (demotion succeeds, lower get_at fails): only `order` frames returned to the tree counter; shows after drain", "C10 quick: VIOLATION (seq: targeted get right after drain fails)", ""),
 ("S53-C04-is-zero-multirow-wrap", "C04d", "C04", "lower.is_free for order 7/8 on the last block of its order in a split huge frame that is not entirely free", "C04 quick: VIOLATION (seq: is_free vs model)", ""),
 ("S54-C09-buddy-index-tree-huge-1", "C09g", "C09", "geometry tree_huge_1 only: untargeted get of HUGE_ORDER indexes children[i ^ 1]", "C09 quick: VIOLATION after adding the other geometries to the quick tier (seq/th1: index out of bounds); C09 thorough before that", "missed by the first C09 quick plan (default + tree_huge_2 only; the thorough tier had all geometries): quick now runs one shard each of tree_huge_1, tree_huge_8 and 16K (C06/C07/C08/C11/C17 also 16K+tree_huge_2)"),
 ("S55-C06-tree-mask-huge-order-plus-2", "C06g", "C06", "TREE_HUGE != 4 (tree_huge_2: counts like 1537; tree_huge_8: frames % 4096 >= 2048)", "C06 quick: VIOLATION (init/th2)", ""),
 ("S56-C21-get-at-retries-counter", "C21c", "C21", "thread frozen between bitfield toggle and counter update in the same huge frame; a targeted small get of zero bits run alone retries the counter decrement forever", "C21 quick: VIOLATION (solo mode: step budget exceeded)", ""),
 ("S57-C14-partial-last-tree-size", "C14c", "C14", "memory size that is not a multiple of the tree size: the unmanaged slots of the partial last tree are counted in no class", "C14 quick: VIOLATION (seq: sum over classes)", ""),
 ("S58-C09-allocall-partial-huge-marker", "C09d", "C09", "Init::AllocAll with a frame count not divisible by 512, then a base-order put into the partial last huge frame (stored as huge with a filled bitfield): panic `Exceeding retries`", "C09 quick: VIOLATION (seq: call panicked)", ""),
 ("S59-C03-get-at-undo-store", "C03d", "C03", "failing targeted small get (bits taken) whose counter undo is a plain store racing another thread's allocation in the same huge frame (lost decrement); shows when the held frames are freed", "C03 quick: VIOLATION (sched/free-running: put of a held block fails / Inc failed)", ""),
 ("S60-C16-threshold-is-best", "C16c", "C16", "search with more than N imperfect candidates where a candidate that belongs in the top N but is not the new best arrives after the buffer filled", "C16 quick: VIOLATION (sortmon: search_best access order)", ""),
 ("S61-C01-toggle-int-retry-without-recheck", "C01d", "C01", "targeted allocation of order 3-6 whose group is free at load time while another thread allocates inside the same group before the compare-exchange (retry XORs the winner's bits)", "C01 quick: VIOLATION (sched target-same: returned block overlaps a held block)", ""),
 ("S62-C07-active-flag-rebuild", "C07c", "C07", "hand-off while every present slot of some class has local counter 0; later a put into that slot and a get that must steal from / demote exactly that slot", "C07 quick: VIOLATION (handoff: continuation diverges)", ""),
 ("S63-C20-time-whole-seconds", "C20c", "C20", "trace with two CPU pages where an allocation sits in a later page than its free and both fall into the same whole second (sort key collapses)", "C20 quick: VIOLATION (tracemon: replay order differs from the trace)", ""),
 ("S64-C08-overlap-asymmetric", "C08c", "C08", "one metadata buffer strictly inside another in the directions local-in-trees, trees-in-lower, lower-in-local", "C08 quick: VIOLATION (invalid buffers: `lower contains trees` accepted) - by the memory-order/containment cases added shortly before this change was tried; the earlier buffer cases had only the opposite containment direction", ""),
 ("S65-C03-steal-from-reserved-tree", "C03c", "C03", "three threads: A (huge request) delayed between the search's load of a class-0 tree T and its CAS; B reserves T; C frees a huge frame inside T; A's steal is treated as a reservation", "C03 quick: VIOLATION (sched: panic `Unreserve failed`)", ""),
]

def main():
    for sid, key, prop, needs, caught, missed in TABLE:
        out = f"/tmp/wt/{key}-out"
        d = os.path.join("/verif/seeded", sid)
        if os.path.exists(os.path.join(d, "meta.json")) or not os.path.exists(os.path.join(out, "verify.log")):
            continue
        log = open(os.path.join(out, "verify.log")).read()
        suites = re.findall(r"SUITE passed (\d+) failed (\d+)", log)
        ok = len(suites) == 2 and all(s == ("51", "0") for s in suites)
        w = re.search(r"DEMO-WITH-PATCH rc=(\d+)", log)
        wo = re.search(r"DEMO-WITHOUT-PATCH rc=(\d+)", log)
        if not (ok and w and wo and w.group(1) != "0" and wo.group(1) == "0"):
            print("NOT VERIFIED", sid, suites, w and w.group(0), wo and wo.group(0))
            continue
        os.makedirs(d, exist_ok=True)
        for f in os.listdir(out):
            p = os.path.join(out, f)
            if os.path.isfile(p) and os.path.getsize(p) < 200_000 and (f.endswith(".rs") or f.endswith(".md") or f in ("patch.diff", "verify.log")):
                shutil.copy(p, os.path.join(d, f))
        meta = {
            "id": sid, "breaks_property": prop, "needs_to_manifest": needs,
            "source": "independent sub-agent given only the property text and its own scratch worktree of /repo (nothing from /verif)",
            "verified": {
                "existing_suite_with_patch": [f"{p} passed, {f} failed" for p, f in suites],
                "verif_feature_build_with_patch": "ok",
                "demo_with_patch": "fails", "demo_without_patch": "passes",
                "how": "./seedverify in a scratch worktree under /tmp (removed afterwards): git apply patch.diff; cargo build with --features verif; cargo test --workspace --no-fail-fast --offline twice; the demonstration with and without the patch (verify.log, demo.md)",
            },
            "caught_by": caught,
            "ran": f"./seedtry seeded/{sid}/patch.diff {prop}  (patch applied in a scratch worktree, checks pointed at it with VERIF_REPO; /repo untouched) and ./seedtest seeded/{sid}/patch.diff {prop}  (git -C /repo apply; ./check {prop} --tier quick; git -C /repo checkout -- .) in the regression sweep, see seeded/REGRESSION.md",
        }
        if missed:
            meta["first_missed"] = missed
        json.dump(meta, open(os.path.join(d, "meta.json"), "w"), indent=1)
        print("stored", sid)

if __name__ == "__main__":
    main()
