"""E6 tracemon (C20): synthetic allocation traces -> the repository's real `replay` binary (built with
feature `verif`) -> its event lines, error lines and JSON output judged against a trace model."""
import itertools
import json
import os
import random
import re
import struct
import subprocess
import tempfile
import time
from concurrent.futures import ThreadPoolExecutor

from . import build

PAGE = 4096
ENTRIES = 255
HUGE = 512
GFP_MOVABLE = 0x08


def entry(time_us, pfn, alloc, order, flags, pid):
    v = (time_us & ((1 << 38) - 1)) | (pfn & 0xFFFFFF) << 38 | (1 if alloc else 0) << 62 | (order & 0xF) << 63 | \
        (flags & ((1 << 29) - 1)) << 67 | (pid & 0xFFFFFFFF) << 96
    return v.to_bytes(16, "little")


def write_trace(path, events, cores, max_pfn):
    """events: list of (alloc, pfn, order, flags, cpu, pid) in replay order"""
    per_cpu = {}
    for i, (alloc, pfn, order, flags, cpu, pid) in enumerate(events):
        per_cpu.setdefault(cpu, []).append(entry((i + 1) * 1000, pfn, alloc, order, flags, pid))
    pages = []
    for cpu, ents in sorted(per_cpu.items()):
        for i in range(0, len(ents), ENTRIES):
            chunk = ents[i:i + ENTRIES]
            page = struct.pack("<I", cpu) + b"\0" * 12 + b"".join(chunk)
            page += b"\0" * (PAGE - len(page))
            pages.append(page)
    header = struct.pack("<III", len(pages), cores, max_pfn) + b"\0" * (PAGE - 12)
    with open(path, "wb") as f:
        f.write(header + b"".join(pages))


class TraceModel:
    """What the trace itself says: live pieces pfn-range -> allocator frame."""

    def __init__(self):
        self.live = []  # (a_pfn, order, frame)
        self.leaked = 0

    def alloc(self, pfn, order, frame):
        for p in list(self.live):
            if p[0] == pfn:
                # re-allocation of a live pfn: the overwritten allocation stays held forever
                self.live.remove(p)
                self.leaked += 1 << p[1]
        self.live.append((pfn, order, frame))

    def free(self, pfn, order):
        """returns the (frame, order) the replayer must free, or None for an unknown frame"""
        for p in self.live:
            a, o, fr = p
            if a <= pfn and pfn + (1 << order) <= a + (1 << o) and order <= o:
                self.live.remove(p)
                # remaining parts stay live, as blocks of the freed order
                for part in range(1 << (o - order)):
                    pp = a + part * (1 << order)
                    if pp != pfn:
                        self.live.append((pp, order, fr + (pp - a)))
                return fr + (pfn - a), order
        return None

    def held(self):
        return sum(1 << p[1] for p in self.live) + self.leaked


def gen_random(rng, thorough):
    cores = rng.choice([1, 1, 2, 3, 4])
    max_pfn = rng.choice([4 * HUGE * 4 - 1, 8 * HUGE * 4 - 1, 3 * HUGE * 4 + 77])
    cap = max_pfn + 1
    events = []
    live = []   # (pfn, order) pieces as the trace sees them
    used = set()
    freed = []
    n = rng.randint(20, 400 if thorough else 160)
    budget = cap // 4
    held = 0
    for _ in range(n):
        r = rng.random()
        cpu = rng.randrange(cores)
        pid = rng.randrange(1, 50)
        flags = rng.choice([0, GFP_MOVABLE, GFP_MOVABLE | 0x10000000, 0x80])
        if r < 0.45 or not live:
            order = rng.choice([0, 0, 0, 1, 2, 3, 4, 5, 6, 8, 9, 9, 10])
            if held + (1 << order) > budget:
                continue
            # a traced pfn block that does not overlap any live traced block (pfn >= 1)
            for _try in range(20):
                pfn = rng.randrange(1, cap >> order) << order if (cap >> order) > 1 else 0
                if pfn == 0 or pfn + (1 << order) > cap:
                    continue
                if any(not (pfn + (1 << order) <= a or a + (1 << o) <= pfn) for a, o in live):
                    continue
                events.append((True, pfn, order, flags, cpu, pid))
                live.append((pfn, order))
                held += 1 << order
                break
        elif r < 0.65:
            a, o = live.pop(rng.randrange(len(live)))
            events.append((False, a, o, flags, cpu, pid))
            held -= 1 << o
            freed.append((a, o))
        elif r < 0.88:
            # partial free: first / middle / last part
            cands = [p for p in live if p[1] > 0]
            if not cands:
                continue
            a, o = rng.choice(cands)
            k = rng.choice([0, o - 1, rng.randrange(o)])
            parts = 1 << (o - k)
            pos = rng.choice([0, parts - 1, parts // 2, rng.randrange(parts)])
            live.remove((a, o))
            for part in range(parts):
                if part != pos:
                    live.append((a + part * (1 << k), k))
            events.append((False, a + pos * (1 << k), k, flags, cpu, pid))
            held -= 1 << k
        elif r < 0.94:
            # free of an unknown pfn (never allocated or already freed)
            if freed and rng.random() < 0.5:
                a, o = rng.choice(freed)
            else:
                o = rng.choice([0, 1, 3])
                a = rng.randrange(1, cap >> o) << o
            if a == 0 or any(not (a + (1 << o) <= x or x + (1 << y) <= a) for x, y in live):
                continue
            events.append((False, a, o, flags, cpu, pid))
        else:
            # re-allocation of a live pfn with the same order: the old allocation is leaked
            a, o = rng.choice(live)
            if held + (1 << o) > budget:
                continue
            events.append((True, a, o, flags, cpu, pid))
            held += 1 << o
    return dict(cores=cores, max_pfn=max_pfn, events=events)


def gen_enumerated():
    """one allocation of order 1..4, one partial free (every order/position), then the remaining parts in a
    permutation (all permutations for up to 4 parts, rotations otherwise)"""
    out = []
    for O in range(1, 5):
        for k in range(0, O + 1):
            parts = 1 << (O - k)
            base = 64
            for pos in range(parts):
                rest = [p for p in range(parts) if p != pos]
                perms = list(itertools.permutations(rest)) if len(rest) <= 3 else [tuple(rest[i:] + rest[:i]) for i in range(len(rest))] + [tuple(reversed(rest))]
                for perm in perms:
                    ev = [(True, base, O, 0, 0, 1), (False, base + pos * (1 << k), k, 0, 0, 1)]
                    for p in perm:
                        ev.append((False, base + p * (1 << k), k, 0, 0, 1))
                    out.append(dict(cores=1, max_pfn=4 * HUGE - 1, events=ev))
    return out


EVENT = re.compile(r"^VERIF (get|put|putfailed|unknown) (\d+) (\d+)(?: (\d+))?\s*$")


def judge(trace, stdout, stderr, rc):
    """returns list of violation messages"""
    v = []
    if rc != 0 and "on an `Err` value: Memory" in stderr:
        return None  # the trace did not fit into the replayer's memory: outside the property, not judged
    if rc != 0:
        tail = [l for l in stderr.splitlines() if "VERIF" not in l][-6:]
        return [f"replay exited with {rc}: {' | '.join(tail)[:500]}"]
    evs = [EVENT.match(l) for l in stderr.splitlines()]
    evs = [m.groups() for m in evs if m]
    m = TraceModel()
    i = 0
    for (alloc, pfn, order, _flags, _cpu, _pid) in trace["events"]:
        if i >= len(evs):
            v.append(f"event lines end after {i} events, trace has {len(trace['events'])}")
            break
        kind, epfn, eorder, eframe = evs[i]
        i += 1
        epfn, eorder = int(epfn), int(eorder)
        if epfn != pfn or eorder != order:
            v.append(f"event {i}: replayed ({kind} pfn {epfn} order {eorder}) but the trace says (pfn {pfn} order {order})")
            break
        if alloc:
            if kind != "get":
                v.append(f"event {i}: traced allocation replayed as {kind}")
                break
            m.alloc(pfn, order, int(eframe))
        else:
            want = m.free(pfn, order)
            if want is None:
                if kind != "unknown":
                    v.append(f"event {i}: free of unknown pfn {pfn} order {order} replayed as {kind} frame {eframe}")
                    break
            else:
                if kind != "put" or int(eframe) != want[0]:
                    v.append(f"event {i}: traced free (pfn {pfn}, order {order}) must release frame {want[0]} of the covering allocation, "
                             f"the replayer {'frees frame ' + str(eframe) if kind == 'put' else 'reports ' + kind}")
                    break
                if i < len(evs) and evs[i][0] == "putfailed":
                    v.append(f"event {i}: free of frame {eframe} order {order} failed in the allocator")
                    i += 1
                    break
    if "Free failed" in stderr and not v:
        v.append("replayer logged 'Free failed'")
    try:
        outj = json.loads(stdout[stdout.index("{"):])
    except Exception as e:  # noqa: BLE001
        return v + [f"no JSON output: {e}"]
    if not v:
        want_free = outj["total_frames"] - m.held()
        if outj["free_frames"] != want_free:
            v.append(f"final free_frames {outj['free_frames']} != managed {outj['total_frames']} - frames the trace still holds {m.held()} = {want_free}")
    return v


def run_trace(binpath, trace, workdir, idx):
    path = os.path.join(workdir, f"t{idx}.trace")
    write_trace(path, trace["events"], trace["cores"], trace["max_pfn"])
    env = dict(os.environ)
    env["RUST_LOG"] = "error"
    try:
        r = subprocess.run([binpath, path, "--stride", "1"], stdout=subprocess.PIPE, stderr=subprocess.PIPE, env=env, timeout=120)
        viol = judge(trace, r.stdout.decode(errors="replace"), r.stderr.decode(errors="replace"), r.returncode)
    except subprocess.TimeoutExpired:
        viol = None
    os.unlink(path)
    return viol


def describe(trace):
    return dict(cores=trace["cores"], max_pfn=trace["max_pfn"],
                events=[f"{'A' if a else 'F'}(pfn {p},o{o},cpu{c})" for (a, p, o, _f, c, _pid) in trace["events"][:40]])


def run(prop, tier, seed, t0, plans):
    binpath = build.replay_bin()
    rng = random.Random(seed * 7919 + 13)
    budget = 40 if tier == "quick" else 420
    workdir = tempfile.mkdtemp(prefix="tracemon-", dir=build.BUILD)
    traces = gen_enumerated()
    n_enum = len(traces)
    m = dict(evaluations=0, calls=0, crash_points=0, counters={}, tuples=set(), states=set(), samples=[], violations=[],
             others={}, notes=[], per_job={}, shard_failures=[], extra={})
    kinds = set()
    deadline = time.time() + budget
    enum_done = 0

    def more():
        nonlocal traces
        while True:
            if traces:
                yield traces.pop(0)
            else:
                yield gen_random(rng, tier == "thorough")

    gen = more()
    idx = 0
    inconclusive = 0
    with ThreadPoolExecutor(max_workers=plans.CORES) as ex:
        # the time budget, extended (up to 5x) on a loaded machine until enough distinct traces were replayed
        while time.time() < deadline or (len(m["states"]) < 300 and time.time() < deadline + 4 * budget):
            batch = [next(gen) for _ in range(64)]
            futs = [(t, ex.submit(run_trace, binpath, t, workdir, idx + i)) for i, t in enumerate(batch)]
            idx += len(batch)
            for t, f in futs:
                viol = f.result()
                m["evaluations"] += 1
                m["calls"] += len(t["events"])
                if m["evaluations"] <= n_enum:
                    enum_done += 1
                if viol is None:
                    inconclusive += 1
                    continue
                for (a, p, o, _f, c, _pid) in t["events"]:
                    kinds.add(("A" if a else "F", o))
                sig = tuple((a, o) for (a, p, o, _f, c, _pid) in t["events"])
                m["states"].add(hash(sig))
                if len(m["samples"]) < 3 and len(t["events"]) > 6:
                    m["samples"].append(describe(t))
                for msg in viol[:2]:
                    path = ""
                    if len(m["violations"]) < 8:
                        os.makedirs(plans.REPLAYS, exist_ok=True)
                        path = os.path.join(plans.REPLAYS, f"{prop}-trace-{abs(hash(sig)) & 0xffffffffff:x}.json")
                        json.dump(dict(engine="trace", property=prop, trace=dict(cores=t["cores"], max_pfn=t["max_pfn"], events=t["events"]), message=msg), open(path, "w"))
                    m["violations"].append(dict(property=prop, message=msg + " | trace: " + " ".join(describe(t)["events"][:12]), replay=path, job="tracemon"))
    try:
        os.rmdir(workdir)
    except OSError:
        pass
    m["counters"] = dict(enumerated_small_traces=n_enum, enumerated_done=enum_done, random_traces=max(0, m["evaluations"] - enum_done),
                         replay_timeouts=inconclusive)
    m["tuples"] = {f"{k}{o}" for k, o in kinds}
    m["per_job"] = {"tracemon/replay-binary": dict(shards=plans.CORES, evaluations=m["evaluations"], calls=m["calls"])}
    return plans.finish(prop, tier, seed, t0, m, len(m["states"]), plans.PLANS[prop]["rule"], min_nontrivial=200,
                        exhaustive=None, extra_cov=dict(enumerated_family_complete=enum_done >= n_enum))


def replay(path, j):
    binpath = build.replay_bin()
    t = j["trace"]
    t["events"] = [tuple(e) for e in t["events"]]
    workdir = tempfile.mkdtemp(prefix="tracemon-", dir=build.BUILD)
    viol = run_trace(binpath, t, workdir, 0)
    os.rmdir(workdir)
    if viol:
        print(f"VIOLATION property={j.get('property', 'C20')} replay={path}")
        for v in viol[:3]:
            print(f"  {v}")
        return 1
    print("replay: no violation reproduced")
    return 0
