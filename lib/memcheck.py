"""C18: the memory-safety tools as oracles (guard pages, AddressSanitizer, ThreadSanitizer, Miri)."""
import json
import os
import re
import shutil
import subprocess
import time
from concurrent.futures import ThreadPoolExecutor

from . import build

ASAN_ENV = {"VMON_BUFS": "heap", "VMON_NO_SIGHANDLER": "1",
            "ASAN_OPTIONS": "detect_leaks=0:halt_on_error=1:abort_on_error=0:exitcode=99:symbolize=1",
            "ASAN_SYMBOLIZER_PATH": "/usr/bin/llvm-symbolizer-14"}
TSAN_ENV = {"VMON_BUFS": "heap", "VMON_NO_SIGHANDLER": "1",
            "TSAN_OPTIONS": "halt_on_error=0:exitcode=66:second_deadlock_stack=1",
            "TSAN_SYMBOLIZER_PATH": "/usr/bin/llvm-symbolizer-14"}
MIRI_BASE = "-Zmiri-disable-isolation -Zmiri-ignore-leaks"


def native_jobs(plans, tier, variant, env, budget):
    j = plans.job
    return [
        j("seq", "C18", "default", "vdev", variant, shards=3, budget_s=budget, env=env),
        j("seq", "C18", "default", "vrel", variant, shards=1, budget_s=budget, env=env) if variant == "plain" else None,
        j("seq", "C18", "th2", "vdev", variant, shards=1, budget_s=budget, env=env) if variant == "plain" else None,
        j("init", "C18", "default", "vdev", variant, shards=2, budget_s=budget, env=env),
        j("sizes", "C18", "default", "vdev", variant, shards=2 if variant == "plain" else 1, budget_s=budget, env=env),
        j("sizes", "C18", "th2", "vdev", variant, shards=1, budget_s=budget, env=env) if variant == "plain" else None,
        j("invalid", "C18", "default", "vdev", variant, shards=1, budget_s=budget, env=env),
        j("free", "C18", "default", "vdev", variant, shards=2, budget_s=budget, env=env),
        j("sched", "C18", "default", "vdev", variant, shards=2, budget_s=budget, env=env),
        j("lower", "C18", "default", "vdev", variant, shards=1, budget_s=budget, env=env),
        j("wrappers", "C18", "default", "vdev", variant, shards=1, budget_s=budget, env=env) if variant == "plain" else None,
        # the other compile-time geometries under guard pages (histories and the metadata-size grid)
        j("seq", "C18", "th1", "vdev", variant, shards=1, budget_s=budget, env=env) if variant == "plain" else None,
        j("seq", "C18", "th8", "vdev", variant, shards=1, budget_s=budget, env=env) if variant == "plain" else None,
        j("seq", "C18", "16k", "vdev", variant, shards=1, budget_s=budget, env=env) if variant == "plain" else None,
        j("sizes", "C18", "16k", "vdev", variant, shards=1, budget_s=budget, env=env) if variant == "plain" else None,
        j("sizes", "C18", "th8", "vdev", variant, shards=1, budget_s=budget, env=env) if variant == "plain" else None,
    ]


def miri_programs(tier, seed):
    """(name, MIRIFLAGS extras, vmon args). The main runs disable Stacked Borrows because of the listed
    finding K3 (every run would stop at the first Locals access); K2/K3 have dedicated witness programs."""
    nosb = "-Zmiri-disable-stacked-borrows"
    progs = []
    nshards = 19
    take = range(nshards) if tier == "thorough" else range(0, nshards, 2)
    for i in take:
        progs.append((f"init-grid-{i}", nosb, ["mem", "--prog", "0", "--shard", f"{i}/{nshards}", "--seed", str(seed)]))
    for i in range(6 if tier == "thorough" else 2):
        progs.append((f"history-{i}", nosb, ["mem", "--prog", "1", "--len", "100" if tier == "thorough" else "60", "--compare-every", "40",
                                             "--seed", str(seed * 10 + i), "--max-evals", "2"]))
    progs.append(("invalid-buffers", nosb, ["mem", "--prog", "2", "--seed", str(seed), "--max-evals", "2"]))
    for i in range(4 if tier == "thorough" else 2):
        progs.append((f"threads-{i}", nosb + f" -Zmiri-many-seeds=0..{8 if tier == 'thorough' else 3}",
                      ["mem", "--prog", "3", "--iters", "120", "--no-narrow", "1", "--seed", str(seed * 10 + i), "--max-evals", "1"]))
    # aliasing models on the workloads that never touch Locals (zero-slot classing is chosen by prog 0 for half the cases)
    # witness programs of the listed findings
    progs.append(("witness-K2-mixed-size-atomics", nosb + " -Zmiri-many-seeds=0..12", ["mem", "--prog", "3", "--iters", "200", "--seed", "5", "--max-evals", "1"]))
    progs.append(("witness-K3-stacked-borrows", "", ["mem", "--prog", "1", "--len", "20", "--compare-every", "1000", "--seed", "3", "--max-evals", "1"]))
    return progs


def run_miri(name, flags, args, outdir):
    out = os.path.join(outdir, f"miri-{name}.json")
    env = build.env_offline({"MIRIFLAGS": f"{MIRI_BASE} {flags}".strip()})
    cmd = build._alt(["cargo", "+nightly", "miri", "run", "--offline", "--target-dir", os.path.join(build.BUILD, "t-miri"), "--"] + args + ["--out", out])
    t0 = time.time()
    try:
        r = subprocess.run(cmd, cwd=build.HARNESS, env=env, stdout=subprocess.PIPE, stderr=subprocess.PIPE, timeout=3000)
        rc, err = r.returncode, r.stderr.decode(errors="replace")
    except subprocess.TimeoutExpired:
        rc, err = "timeout", ""
    rep = None
    if os.path.exists(out):
        try:
            rep = json.load(open(out))
        except Exception:  # noqa: BLE001
            pass
    return dict(name=name, rc=rc, stderr=err, report=rep, wall=time.time() - t0, cmd="MIRIFLAGS='%s' %s" % (env["MIRIFLAGS"], " ".join(cmd)))


def miri_reports(err):
    """(message, first frame in /repo with function name) for each UB report"""
    out = []
    blocks = re.split(r"(?m)^error: ", err)
    for b in blocks[1:]:
        first = b.splitlines()[0]
        if first.startswith("aborting") or first.startswith("could not") or "warnings emitted" in first:
            continue
        fns = re.findall(r"\d+: (<?llfree::[^\n]+)\n\s+at (" + re.escape(build.REPO) + r"/[^\s:]+:\d+)", b)[:5]
        where = " < ".join(f"{f.strip()} ({w})" for f, w in fns)
        out.append((first.strip(), where))
    return out


def sanitizer_reports(err, marker):
    out = []
    for m in re.finditer(marker + r"[^\n]*", err):
        tail = err[m.start():m.start() + 6000]
        fr = re.search(r"#\d+ 0x[0-9a-f]+ in (\S*llfree\S*)[^\n]*?(" + re.escape(build.REPO) + r"/[^\s:]+:\d+)?", tail)
        where = (fr.group(1) + (" " + fr.group(2) if fr.group(2) else "")) if fr else ""
        out.append((m.group(0).strip(), where))
    return out


def run(prop, tier, seed, t0, plans):
    budget = 20 if tier == "quick" else 240
    try:
        jobs = [j for j in native_jobs(plans, tier, "plain", {}, budget) if j]
        jobs += [j for j in native_jobs(plans, tier, "asan", ASAN_ENV, budget) if j]
        jobs.append(plans.job("free", "C18", "default", "vdev", "tsan", shards=3 if tier == "quick" else 6, budget_s=budget, env=TSAN_ENV, args=["--iters", "400"]))
        jobs.append(plans.job("sched", "C18", "default", "vdev", "tsan", shards=1, budget_s=budget, env=TSAN_ENV))
        outdir = os.path.join(plans.RUNDIR, prop)
        progs = miri_programs(tier, seed)
        # sanitizer / native shards and the Miri programs share the 16 cores
        with ThreadPoolExecutor(max_workers=2) as ex:
            f_native = ex.submit(plans.run_jobs, jobs, seed, prop)
            time.sleep(1.0)
            os.makedirs(outdir, exist_ok=True)
            with ThreadPoolExecutor(max_workers=6) as mex:
                mfuts = [mex.submit(run_miri, n, fl, a, outdir) for (n, fl, a) in progs]
                miri = [f.result() for f in mfuts]
            results = f_native.result()
    except build.BuildError as e:
        print(f"ERROR property={prop}: {e}")
        return 2
    m = plans.merge(results)
    # the tools are the oracle: only their reports count for C18; what the monitors saw belongs to other properties
    for v in m["violations"]:
        e = m["others"].setdefault("(monitor observations during C18 workloads)", dict(count=0, first=v.get("message", "")))
        e["count"] += 1
    m["violations"] = []
    tool_counts = dict(guard_page_shards=0, asan_shards=0, tsan_shards=0, miri_programs=0, miri_programs_clean=0,
                       asan_calls=0, tsan_calls=0, native_calls=0, miri_calls=0)
    failures = []
    for r in results:
        j = r["job"]
        calls = (r["report"] or {}).get("calls", 0)
        key = f"{j['engine']}/{j['geom']}/{j['profile']}/{j['variant']} shard {r['idx']}"
        err = r["stderr"] or ""
        if j["variant"] == "plain":
            tool_counts["guard_page_shards"] += 1
            tool_counts["native_calls"] += calls
            if r["rc"] == 77 or "VMON-GUARD-FAULT" in err:
                line = [l for l in err.splitlines() if "VMON-GUARD-FAULT" in l][:1]
                m["violations"].append(dict(property=prop, job=key, replay="", message=f"guard page hit: access outside the caller-provided metadata buffers: {line} (re-run: {r['cmd']})"))
            elif r["rc"] != 0:
                if r["rc"] == 78 or (isinstance(r["rc"], int) and r["rc"] < 0):
                    line = [l for l in err.splitlines() if "VMON-SIGNAL" in l][:1]
                    m["violations"].append(dict(property=prop, job=key, replay="", message=f"fatal signal in the allocator workload: rc={r['rc']} {line} (re-run: {r['cmd']})"))
                else:
                    failures.append(dict(job=key, shard=r["idx"], rc=r["rc"], stderr=err[-800:], cmd=r["cmd"]))
        elif j["variant"] == "asan":
            tool_counts["asan_shards"] += 1
            tool_counts["asan_calls"] += calls
            reps = sanitizer_reports(err, "ERROR: AddressSanitizer")
            for (msg, where) in reps[:3]:
                m["violations"].append(dict(property=prop, job=key, replay="", message=f"AddressSanitizer: {msg} in {where} (re-run: {r['cmd']})"))
            if not reps and r["rc"] != 0:
                failures.append(dict(job=key, shard=r["idx"], rc=r["rc"], stderr=err[-800:], cmd=r["cmd"]))
        elif j["variant"] == "tsan":
            tool_counts["tsan_shards"] += 1
            tool_counts["tsan_calls"] += calls
            reps = sanitizer_reports(err, "WARNING: ThreadSanitizer")
            seen = set()
            for (msg, where) in reps:
                if (msg, where) in seen:
                    continue
                seen.add((msg, where))
                if len(seen) <= 3:
                    m["violations"].append(dict(property=prop, job=key, replay="", message=f"ThreadSanitizer: {msg} in {where} (re-run: {r['cmd']})"))
            if not reps and r["rc"] not in (0,):
                failures.append(dict(job=key, shard=r["idx"], rc=r["rc"], stderr=err[-800:], cmd=r["cmd"]))
    m["shard_failures"] = failures
    miri_samples = []
    for r in miri:
        tool_counts["miri_programs"] += 1
        rep = r["report"] or {}
        tool_counts["miri_calls"] += rep.get("calls", 0)
        m["evaluations"] += rep.get("evaluations", 0)
        m["calls"] += rep.get("calls", 0)
        reps = miri_reports(r["stderr"])
        witness = r["name"].startswith("witness-")
        for (msg, where) in reps[:3]:
            tag = ""
            sizes = set(re.findall(r"(\d+)-byte atomic", msg))
            if "Race condition detected" in msg and (len(sizes) > 1 or "differently-sized" in msg) and "bitfield" in where:
                tag = "[mixed-size atomic accesses of one bitfield row] "
            m["violations"].append(dict(property=prop, job="miri/" + r["name"], replay="", message=f"Miri [{r['name']}]: {tag}{msg} in {where} (re-run: cd /verif/harness && {r['cmd']})"))
        if not reps:
            if r["rc"] == 0:
                tool_counts["miri_programs_clean"] += 1
                m["states"].add(hash(r["name"]))
            elif not witness:
                failures.append(dict(job="miri/" + r["name"], shard=0, rc=r["rc"], stderr=r["stderr"][-800:], cmd=r["cmd"]))
        if len(miri_samples) < 4:
            miri_samples.append(dict(miri_program=r["name"], rc=r["rc"], wall_s=round(r["wall"], 1), calls=rep.get("calls", 0), reports=[x[0][:120] for x in reps[:2]]))
    m["samples"] = (m["samples"][:4] + miri_samples)[:8]
    m["counters"].update(tool_counts)
    m["per_job"]["miri"] = dict(shards=len(miri), evaluations=sum((r["report"] or {}).get("evaluations", 0) for r in miri),
                                calls=tool_counts["miri_calls"])
    nontrivial = len(m["states"])
    return plans.finish(prop, tier, seed, t0, m, nontrivial, plans.PLANS[prop]["rule"], min_nontrivial=100,
                        extra_cov=dict(tools=dict(rustc=plans._tool_version(), nightly=_nightly(), asan="rustc -Zsanitizer=address", tsan="rustc -Zsanitizer=thread -Zbuild-std", miri="cargo +nightly miri run")))


_N = None


def _nightly():
    global _N
    if _N is None:
        try:
            _N = subprocess.run(["rustc", "+nightly", "--version"], stdout=subprocess.PIPE).stdout.decode().strip()
        except Exception:  # noqa: BLE001
            _N = "unknown"
    return _N
