"""Writing /verif/evidence/<id>.json (schema: /root/.vp/EVIDENCE.schema.json)."""
import json
import os

VERIF = os.path.dirname(os.path.dirname(os.path.abspath(__file__)))


def write(prop, tier, seed, level, coverage, assumptions, wall_s, violations):
    from . import build
    edir = os.path.join(VERIF, "evidence") if not build.ALT else os.path.join(build.BUILD, "evidence")
    os.makedirs(edir, exist_ok=True)
    ev = {
        "property_id": prop,
        "tier": tier,
        "seed": seed,
        "level": level,
        "coverage": coverage,
        "assumptions": assumptions,
        "wall_s": round(wall_s, 2),
        "violations": violations,
    }
    path = os.path.join(edir, f"{prop}.json")
    tmp = path + ".tmp"
    with open(tmp, "w") as f:
        json.dump(ev, f, indent=1, sort_keys=True)
        f.write("\n")
    os.replace(tmp, path)
    return path
