"""Known-findings file: /verif/KNOWN_FINDINGS.txt (committed, never written at run time).

  open: property=<id> key="<substring of the violation message>" [key2="<second substring>"] <what fails>
  fixed: property=<id> <commit> <what failed>

An `open` entry re-classifies exactly the violations of its property whose message contains all of
its key substrings; everything else stays a VIOLATION. `fixed` entries suppress nothing.
"""
import os
import re

VERIF = os.path.dirname(os.path.dirname(os.path.abspath(__file__)))
PATH = os.path.join(VERIF, "KNOWN_FINDINGS.txt")


def load():
    out = []
    if not os.path.exists(PATH):
        return out
    for line in open(PATH):
        line = line.strip()
        if not line.startswith("open:"):
            continue
        m = re.match(r'open:\s+property=(\S+)\s+key="([^"]*)"(?:\s+key2="([^"]*)")?\s+(.*)', line)
        if not m:
            continue
        out.append(dict(prop=m.group(1), keys=[k for k in (m.group(2), m.group(3)) if k], text=m.group(4)))
    return out


def split(prop, violations, kf):
    rest, hits = [], {}
    for v in violations:
        msg = v.get("message", "")
        for i, e in enumerate(kf):
            if e["prop"] == prop and all(k in msg for k in e["keys"]):
                hits.setdefault(i, []).append(v)
                break
        else:
            rest.append(v)
    return rest, hits
