"""python3 -m lib.seedstore <seed-id> <prop> <outdir> <caught_by> <needs> -- store a verified seeded change under /verif/seeded/<seed-id>/"""
import json, os, shutil, sys, re
sid, prop, out, caught, needs = sys.argv[1:6]
patch = sys.argv[6] if len(sys.argv) > 6 else "patch.diff"
d = os.path.join("/verif/seeded", sid)
os.makedirs(d, exist_ok=True)
shutil.copy(os.path.join(out, patch), os.path.join(d, "patch.diff"))
for f in os.listdir(out):
    if f.startswith("demo") or f == "notes.md":
        shutil.copy(os.path.join(out, f), os.path.join(d, f))
log = open(os.path.join(out, "verify.log")).read() if os.path.exists(os.path.join(out, "verify.log")) else ""
suite = re.findall(r"SUITE passed (\d+) failed (\d+)", log)
meta = {
    "id": sid,
    "breaks_property": prop,
    "needs_to_manifest": needs,
    "source": "independent sub-agent given only the property text and a scratch worktree of /repo",
    "verified": {
        "existing_suite_with_patch": [f"{p} passed, {f} failed" for p, f in suite],
        "verif_feature_build_with_patch": "ok",
        "demo_with_patch": "fails" if "DEMO-WITH-PATCH rc=101" in log or "DEMO-WITH-PATCH rc=1" in log else "see verify.log",
        "demo_without_patch": "passes" if "DEMO-WITHOUT-PATCH rc=0" in log else "see verify.log",
        "how": "scratch worktree under /tmp: git apply patch.diff; cargo build -p llfree --features verif --offline; cargo test --workspace --no-fail-fast --offline (twice); demo with and without the patch (see demo.md)",
    },
    "caught_by": caught,
    "ran": f"./seedtest seeded/{sid}/patch.diff {prop}  (git -C /repo apply; ./check {prop} --tier quick; git -C /repo checkout -- .)",
}
if log:
    open(os.path.join(d, "verify.log"), "w").write(log)
json.dump(meta, open(os.path.join(d, "meta.json"), "w"), indent=1)
print("stored", d)
