//! vmon-eval: classmon (C19): class configurations of the evaluation harness always produce valid requests.
//!
//! Configurations are built as JSON and parsed by the repository's own `ClassingConfig` (facet);
//! every generated request is checked directly and used with a real allocator.

use std::collections::BTreeSet;
use std::time::{Duration, Instant};

use llfree::{Alloc, Error, Init, LLFree, MetaData, TREE_FRAMES};
use llfree_eval::classes::ClassingConfig;

const KINDS: [&str; 5] = ["zero", "one", "cores", "cores_half", "pids"];
const GFPS: [u32; 6] = [0, 0x08, 0x08 | 0x10000000, 0x02 | 0x80 | 0x08, 0x8000, 0x10000000];

fn jstr(s: &str) -> String {
    format!("\"{s}\"")
}

struct Out {
    evaluations: u64,
    requests: u64,
    alloc_calls: u64,
    distinct: BTreeSet<(String, usize, bool)>,
    violations: Vec<String>,
    samples: Vec<String>,
}

fn viol(out: &mut Out, msg: String) {
    if out.violations.len() < 20 {
        out.violations.push(msg);
    }
}

/// JSON of a configuration with `kinds.len()` classes (distinct ids); class i matches an order range
/// and optionally a GFP matcher so that requests are routed to every class.
fn config_json(kinds: &[usize], ids: &[u8], style: usize) -> String {
    let n = kinds.len();
    let mut classes = Vec::new();
    for i in 0..n {
        // order ranges partition 0..=10 (style 0) or overlap / leave gaps (style 1: falls back to class 0)
        let (lo, hi) = match style {
            0 => (i * 11 / n, (i + 1) * 11 / n - 1),
            1 => (i * 2, i * 2 + 1),
            _ => (0, 10),
        };
        let gfp = match (style, i % 3) {
            (2, 0) => r#","gfp":{"on":"MOVABLE"}"#.to_string(),
            (2, 1) => r#","gfp":{"all":[{"off":"MOVABLE"},{"not":{"on":"NOFAIL"}}]}"#.to_string(),
            (2, _) => r#","gfp":{"any":[{"on":"PAGE_CACHE"},{"on":"NOFAIL"}]}"#.to_string(),
            _ => String::new(),
        };
        let order = if style == 3 { String::new() } else { format!(",\"order\":[{lo},{hi}]") };
        classes.push(format!("{{\"id\":{},\"count\":{}{order}{gfp}}}", ids[i], jstr(KINDS[kinds[i]])));
    }
    format!("{{\"classes\":[{}],\"default\":{},\"perfect\":[64,2047],\"good\":[2048,4095]}}", classes.join(","), ids[n - 1])
}

fn check_config(name: &str, json: &str, out: &mut Out, with_alloc: bool, core_step: usize) {
    let cfg: ClassingConfig = match facet_json::from_str(json) {
        Ok(c) => c,
        Err(e) => {
            // a configuration the harness does not accept is outside the property
            out.samples.push(format!("rejected config {name}: {e}"));
            return;
        }
    };
    out.evaluations += 1;
    for cores in 1..=16usize {
        let classing = cfg.classing(cores);
        let classes: Vec<(u8, usize)> = classing.classes().iter().map(|&(c, n)| (c.0, n)).collect();
        // a real allocator with this classing
        let frames = 4 * TREE_FRAMES;
        let alloc = if with_alloc && (cores <= 2 || cores % 5 == 0) {
            let ms = LLFree::metadata_size(&classing, frames);
            let meta = MetaData::alloc(&ms);
            LLFree::new(frames, Init::FreeAll, &classing, meta).ok()
        } else {
            None
        };
        for core in (0..=64usize).step_by(core_step) {
            for pid in [0usize, 1, cores - 1, cores, cores + 1, 7, 63, 64, core] {
                for order in 0..=10usize {
                    for gfp in GFPS {
                        out.requests += 1;
                        let req = cfg.request(order, core, cores, pid, gfp);
                        let slots = classes.iter().find(|c| c.0 == req.class.0).map(|c| c.1);
                        let ok = match (slots, req.local) {
                            (None, _) => false,
                            (Some(_), None) => true,
                            (Some(n), Some(i)) => i < n,
                        };
                        if out.distinct.len() < 100_000 {
                            out.distinct.insert((name.to_string(), cores * 100 + req.class.0 as usize, req.local.is_some()));
                        }
                        if !ok {
                            viol(out, format!(
                                "config {name} {json}: request(order {order}, core {core}, cores {cores}, pid {pid}, gfp {gfp:#x}) = class {} slot {:?}; configured classes with slot counts: {classes:?}",
                                req.class.0, req.local
                            ));
                            continue;
                        }
                        if let Some(a) = &alloc
                            && order <= 9
                            && core % 8 == 0
                        {
                            out.alloc_calls += 1;
                            match std::panic::catch_unwind(std::panic::AssertUnwindSafe(|| a.get(None, req))) {
                                Ok(Ok((f, _))) => {
                                    if let Ok(Err(e)) | Ok(Err(e)) = std::panic::catch_unwind(std::panic::AssertUnwindSafe(|| a.put(f, req))) {
                                        viol(out, format!("config {name}: put with generated request failed: {e:?}"));
                                    }
                                }
                                Ok(Err(Error::Memory)) => {}
                                Ok(Err(e)) => viol(out, format!("config {name}: allocator rejects the generated request {req:?}: {e:?}")),
                                Err(_) => viol(out, format!("config {name} {json}: allocator panicked on the generated request {req:?} (cores {cores})")),
                            }
                        }
                    }
                }
            }
        }
    }
}

fn main() {
    let mut args = std::env::args().skip(1);
    let mut shard = 0usize;
    let mut shards = 1usize;
    let mut budget_ms = 20_000u64;
    let mut outp = None;
    let mut thorough = false;
    let mut seed = 1u64;
    while let Some(k) = args.next() {
        match k.as_str() {
            "class" | "--prop" => {
                if k == "--prop" {
                    args.next();
                }
            }
            "--shard" => {
                let v = args.next().unwrap();
                let (i, n) = v.split_once('/').unwrap();
                shard = i.parse().unwrap();
                shards = n.parse().unwrap();
            }
            "--budget-ms" => budget_ms = args.next().unwrap().parse().unwrap(),
            "--out" => outp = args.next(),
            "--seed" => seed = args.next().unwrap().parse().unwrap(),
            "--thorough" => thorough = true,
            "--replay-dir" => {
                args.next();
            }
            _ => {}
        }
    }
    std::panic::set_hook(Box::new(|_| {}));
    let deadline = Instant::now() + Duration::from_millis(budget_ms);
    let mut out = Out { evaluations: 0, requests: 0, alloc_calls: 0, distinct: BTreeSet::new(), violations: Vec::new(), samples: Vec::new() };
    // shipped configurations
    let mut shipped = 0;
    if let Ok(rd) = std::fs::read_dir("/repo/results") {
        let mut files: Vec<_> = rd.flatten().map(|e| e.path()).filter(|p| p.file_name().and_then(|n| n.to_str()).is_some_and(|n| n.starts_with("classes") && n.ends_with(".json"))).collect();
        files.sort();
        for (i, p) in files.iter().enumerate() {
            if i % shards != shard {
                continue;
            }
            if let Ok(s) = std::fs::read_to_string(p) {
                check_config(&p.display().to_string(), &s, &mut out, true, 1);
                shipped += 1;
            }
        }
    }
    // every combination of slot-count kinds for 1..4 classes
    let mut complete = true;
    let mut count = 0u64;
    let id_sets: [&[u8]; 3] = [&[0, 1, 2, 3], &[1, 3, 4, 7], &[5, 0, 2, 6]];
    'outer: for n in 1..=4usize {
        let total = 5usize.pow(n as u32);
        for idx in 0..total {
            for style in 0..4usize {
                count += 1;
                if count % shards as u64 != shard as u64 {
                    continue;
                }
                if Instant::now() > deadline {
                    complete = false;
                    break 'outer;
                }
                let mut x = idx;
                let kinds: Vec<usize> = (0..n).map(|_| {
                    let k = x % 5;
                    x /= 5;
                    k
                }).collect();
                let ids = id_sets[(idx + style + seed as usize) % 3];
                let json = config_json(&kinds, ids, style);
                if out.samples.len() < 3 {
                    out.samples.push(json.clone());
                }
                let name = format!("kinds={:?} style={style}", kinds.iter().map(|k| KINDS[*k]).collect::<Vec<_>>());
                check_config(&name, &json, &mut out, idx % 7 == 0 || n <= 2, if thorough { 1 } else { 3 });
            }
        }
    }
    let esc = |s: &str| s.replace('\\', "\\\\").replace('"', "\\\"").replace('\n', " ");
    let viols: Vec<String> = out.violations.iter().map(|v| format!("{{\"property\":\"C19\",\"message\":\"{}\",\"replay\":\"\"}}", esc(v))).collect();
    let samples: Vec<String> = out.samples.iter().map(|v| format!("\"{}\"", esc(v))).collect();
    let json = format!(
        "{{\"property\":\"C19\",\"engine\":\"class\",\"evaluations\":{},\"calls\":{},\"counters\":{{\"requests_checked\":{},\"allocator_calls_with_generated_requests\":{},\"shipped_configs\":{},\"kind_grid_complete\":{}}},\"x_distinct_classes\":{},\"tuples\":[],\"samples\":[{}],\"violations\":[{}],\"other_properties\":{{}},\"notes\":[]}}",
        out.evaluations,
        out.requests,
        out.requests,
        out.alloc_calls,
        shipped,
        complete as u8,
        out.distinct.len(),
        samples.join(","),
        viols.join(",")
    );
    match outp {
        Some(p) => std::fs::write(p, json).unwrap(),
        None => println!("{json}"),
    }
}
